// Command legacygen drives the REAL legacy library (github.com/cosmos/iavl v0.20.0, the last
// hash-keyed node format) over GoLevelDB with a seeded history and prints a JSON record of what
// that library reported: the surviving versions with their contents and root hashes. It is the
// generator and the oracle of check C16.
//
//	legacygen <dir> <seed> <versions> <keys> <deleteMode: none|some|range>
package main

import (
	"encoding/hex"
	"encoding/json"
	"fmt"
	"math/rand"
	"os"
	"path/filepath"
	"sort"
	"strconv"

	dbm "github.com/cometbft/cometbft-db"
	"github.com/cosmos/iavl"
)

type versionRecord struct {
	Version int64       `json:"version"`
	Hash    string      `json:"hash"`
	Pairs   [][2]string `json:"pairs"` // hex key, hex value (sorted)
}

type record struct {
	Seed     int64           `json:"seed"`
	Latest   int64           `json:"latest"`
	Versions []versionRecord `json:"versions"` // surviving versions, ascending
	Deleted  []int64         `json:"deleted"`
	Ops      []string        `json:"ops"`
}

func fail(err error) {
	fmt.Fprintln(os.Stderr, "legacygen:", err)
	os.Exit(1)
}

func main() {
	if len(os.Args) < 6 {
		fmt.Fprintln(os.Stderr, "usage: legacygen <dir> <seed> <versions> <keys> <none|some|range>")
		os.Exit(2)
	}
	dir, _ := filepath.Abs(os.Args[1])
	seed, _ := strconv.ParseInt(os.Args[2], 10, 64)
	nver, _ := strconv.Atoi(os.Args[3])
	nkeys, _ := strconv.Atoi(os.Args[4])
	mode := os.Args[5]
	db, err := dbm.NewDB("legacy", dbm.GoLevelDBBackend, dir)
	if err != nil {
		fail(err)
	}
	defer db.Close()
	t, err := iavl.NewMutableTreeWithOpts(db, 100, nil, true)
	if err != nil {
		fail(err)
	}
	rng := rand.New(rand.NewSource(seed))
	rec := record{Seed: seed}
	contents := map[int64]map[string]string{}
	hashes := map[int64][]byte{}
	cur := map[string]string{}
	vc := 0
	for v := 1; v <= nver; v++ {
		nops := rng.Intn(6)
		if rng.Intn(6) == 0 {
			nops = 0
		}
		for i := 0; i < nops; i++ {
			k := []byte(fmt.Sprintf("k%02d", rng.Intn(nkeys)))
			if rng.Intn(4) == 0 && v > 1 {
				t.Remove(k)
				delete(cur, string(k))
				rec.Ops = append(rec.Ops, fmt.Sprintf("rm %s", k))
			} else {
				vc++
				val := []byte(fmt.Sprintf("L%d", vc))
				if _, err := t.Set(k, val); err != nil {
					fail(err)
				}
				cur[string(k)] = string(val)
				rec.Ops = append(rec.Ops, fmt.Sprintf("set %s=%s", k, val))
			}
		}
		h, ver, err := t.SaveVersion()
		if err != nil {
			fail(err)
		}
		rec.Ops = append(rec.Ops, fmt.Sprintf("save %d", ver))
		snap := map[string]string{}
		for k, x := range cur {
			snap[k] = x
		}
		contents[ver] = snap
		hashes[ver] = h
		rec.Latest = ver
	}
	deleted := map[int64]bool{}
	switch mode {
	case "some":
		for i := 0; i < nver/3; i++ {
			v := int64(1 + rng.Intn(nver-1))
			if deleted[v] {
				continue
			}
			if err := t.DeleteVersion(v); err != nil {
				fail(err)
			}
			deleted[v] = true
		}
	case "range":
		if nver > 3 {
			to := int64(2 + rng.Intn(nver-2))
			if err := t.DeleteVersionsRange(1, to); err != nil {
				fail(err)
			}
			for v := int64(1); v < to; v++ {
				deleted[v] = true
			}
		}
	}
	for v := int64(1); v <= rec.Latest; v++ {
		if deleted[v] {
			rec.Deleted = append(rec.Deleted, v)
			continue
		}
		vr := versionRecord{Version: v, Hash: hex.EncodeToString(hashes[v])}
		keys := make([]string, 0, len(contents[v]))
		for k := range contents[v] {
			keys = append(keys, k)
		}
		sort.Strings(keys)
		for _, k := range keys {
			vr.Pairs = append(vr.Pairs, [2]string{hex.EncodeToString([]byte(k)), hex.EncodeToString([]byte(contents[v][k]))})
		}
		rec.Versions = append(rec.Versions, vr)
	}
	// cross-check with what the legacy library itself lists
	av := t.AvailableVersions()
	if len(av) != len(rec.Versions) {
		fail(fmt.Errorf("legacy library lists %v, generator expects %d versions", av, len(rec.Versions)))
	}
	out, _ := json.Marshal(rec)
	fmt.Println(string(out))
}
