#!/bin/bash
# Entry point of every MANIFEST command:  ./run.sh <Cnn> <quick|thorough>   |   ./run.sh <Cnn> --replay <file>
# Rebuilds the checker against /repo's current working tree (hooks on: -tags verif) on every call.
set -u
cd "$(dirname "$0")"
export GOFLAGS=-mod=mod GOPROXY=off GOSUMDB=off GOTOOLCHAIN=local
export VERIF_DIR="$PWD"
prop="${1:?property id}"
tier="${2:-${VERIF_TIER:-quick}}"
mkdir -p bin evidence
variant=plain
flags=()
case "$prop" in
  C06) variant=race; flags=(-race) ;;
esac
if [ "${VERIF_RACE:-}" = 1 ]; then variant=race; flags=(-race); fi
bin="bin/vcheck-$variant"
if ! out=$(go build -tags verif "${flags[@]}" -o "$bin" ./cmd/vcheck 2>&1); then
  echo "$out" | grep -v -e 'sqlite3.c' -e 'warning:' -e '^ *[0-9|]' -e 'note:' -e '~~~' | head -50
  echo "INCONCLUSIVE property=$prop build of the checker against /repo failed"
  exit 2
fi
if [ "$prop" = C16 ] && [ ! -x bin/legacygen ]; then
  (cd legacygen && go build -o ../bin/legacygen .) || { echo "INCONCLUSIVE property=C16 cannot build the legacy generator"; exit 2; }
fi
if [ "$tier" = "--replay" ]; then
  exec "$bin" replay "${3:?replay file}"
fi
exec "$bin" run "$prop" "$tier"
