package v1x

import (
	"bytes"
	"fmt"
	"sort"

	corestore "cosmossdk.io/core/store"
	"github.com/cosmos/iavl"

	"verif/internal/model"
)

// Reader is the read API shared by MutableTree (working state) and ImmutableTree.
type Reader interface {
	Get(key []byte) ([]byte, error)
	Has(key []byte) (bool, error)
	GetWithIndex(key []byte) (int64, []byte, error)
	GetByIndex(index int64) ([]byte, []byte, error)
	Size() int64
	Iterate(fn func(key, value []byte) bool) (bool, error)
}

// Probes returns the key universe plus absent neighbours.
func Probes(universe [][]byte, snap model.Snap) [][]byte {
	seen := map[string]bool{}
	var out [][]byte
	add := func(k []byte) {
		if len(k) == 0 || seen[string(k)] {
			return
		}
		seen[string(k)] = true
		out = append(out, append([]byte(nil), k...))
	}
	for _, k := range universe {
		add(k)
	}
	for k := range snap {
		add([]byte(k))
	}
	// the empty key is probed where the history uses it (it is a legal tree key)
	hasEmpty := false
	for _, k := range universe {
		if k != nil && len(k) == 0 {
			hasEmpty = true
		}
	}
	if _, ok := snap[""]; ok || hasEmpty {
		if !seen[""] {
			seen[""] = true
			out = append(out, []byte{})
		}
	}
	base := append([][]byte(nil), out...)
	for i, k := range base {
		if i%3 == 0 || len(k) == 0 {
			add(append(append([]byte(nil), k...), 0))
		}
		if i%3 == 1 && len(k) > 1 {
			add(k[:len(k)-1])
		}
	}
	add([]byte{0})
	add([]byte{0xff, 0xff, 0xff})
	sort.Slice(out, func(i, j int) bool { return bytes.Compare(out[i], out[j]) < 0 })
	return out
}

func valOrNil(s model.Snap, k []byte) []byte {
	if v, ok := s[string(k)]; ok {
		return []byte(v)
	}
	return nil
}

// eqVal compares a returned value with an expected one (nil = absent). An empty stored value
// must come back non-nil.
func eqVal(got, want []byte) bool {
	if want == nil {
		return got == nil
	}
	return got != nil && bytes.Equal(got, want)
}

// CheckReads runs the full read battery of a tree against a snapshot. where names the tree
// ("work", "latest", "old"); it becomes part of the signature.
func (e *Env) CheckReads(t Reader, snap model.Snap, where string, probes [][]byte) int {
	n := 0
	keys := snap.Keys()
	if sz := t.Size(); sz != int64(len(keys)) {
		e.bad("reads|"+where+"|size", "Size()=%d, model has %d keys", sz, len(keys))
	}
	for _, k := range probes {
		want := valOrNil(snap, k)
		got, err := t.Get(k)
		n++
		if err != nil {
			e.bad("reads|"+where+"|get-error", "Get(%q): %v", k, err)
		} else if !eqVal(got, want) {
			e.bad("reads|"+where+"|get", "Get(%q)=%q, model says %q (present=%v)", k, got, want, want != nil)
		}
		has, err := t.Has(k)
		n++
		if err != nil {
			e.bad("reads|"+where+"|has-error", "Has(%q): %v", k, err)
		} else if has != (want != nil) {
			e.bad("reads|"+where+"|has", "Has(%q)=%v, model says %v", k, has, want != nil)
		}
		rank, _ := snap.Rank(string(k))
		idx, v2, err := t.GetWithIndex(k)
		n++
		if err != nil {
			e.bad("reads|"+where+"|getwithindex-error", "GetWithIndex(%q): %v", k, err)
		} else if idx != int64(rank) || !eqVal(v2, want) {
			e.bad("reads|"+where+"|getwithindex", "GetWithIndex(%q)=(%d,%q), model says (%d,%q)", k, idx, v2, rank, want)
		}
	}
	for i := int64(-1); i <= int64(len(keys)); i++ {
		k, v, err := t.GetByIndex(i)
		n++
		if err != nil {
			e.bad("reads|"+where+"|getbyindex-error", "GetByIndex(%d): %v", i, err)
			continue
		}
		if i < 0 || i >= int64(len(keys)) {
			if k != nil || v != nil {
				e.bad("reads|"+where+"|getbyindex-oob", "GetByIndex(%d)=(%q,%q) out of range [0,%d)", i, k, v, len(keys))
			}
			continue
		}
		if string(k) != keys[i] || !eqVal(v, []byte(snap[keys[i]])) {
			e.bad("reads|"+where+"|getbyindex", "GetByIndex(%d)=(%q,%q), model says (%q,%q)", i, k, v, keys[i], snap[keys[i]])
		}
	}
	var gotK, gotV []string
	stopped, err := t.Iterate(func(k, v []byte) bool {
		gotK = append(gotK, string(k))
		gotV = append(gotV, string(v))
		return false
	})
	n++
	if err != nil || stopped {
		e.bad("reads|"+where+"|iterate-error", "Iterate: stopped=%v err=%v", stopped, err)
	}
	if !sameSeq(gotK, gotV, keys, snap) {
		e.bad("reads|"+where+"|iterate", "Iterate yielded %q, model has %q", pairsStr(gotK, gotV), snapStr(snap))
	}
	// ordered iteration in both directions through the Iterator interface
	if it, ok := t.(interface {
		Iterator(start, end []byte, ascending bool) (corestore.Iterator, error)
	}); ok {
		for _, asc := range []bool{true, false} {
			itr, err := it.Iterator(nil, nil, asc)
			n++
			if err != nil {
				e.bad("reads|"+where+"|iterator-error", "Iterator(nil,nil,%v): %v", asc, err)
				continue
			}
			var ik, iv []string
			for ; itr.Valid(); itr.Next() {
				ik = append(ik, string(itr.Key()))
				iv = append(iv, string(itr.Value()))
			}
			itr.Close()
			if !asc {
				for i, j := 0, len(ik)-1; i < j; i, j = i+1, j-1 {
					ik[i], ik[j] = ik[j], ik[i]
					iv[i], iv[j] = iv[j], iv[i]
				}
			}
			if !sameSeq(ik, iv, keys, snap) {
				e.bad("reads|"+where+"|iterator", "Iterator(nil,nil,ascending=%v) yielded %q, model has %q", asc, pairsStr(ik, iv), snapStr(snap))
			}
		}
	}
	e.C.Obs("reads", n)
	return n
}

func sameSeq(gotK, gotV, keys []string, snap model.Snap) bool {
	if len(gotK) != len(keys) {
		return false
	}
	for i := range keys {
		if gotK[i] != keys[i] || gotV[i] != snap[keys[i]] {
			return false
		}
	}
	return true
}

func pairsStr(k, v []string) string {
	var b bytes.Buffer
	for i := range k {
		fmt.Fprintf(&b, "%q=%q ", k[i], v[i])
	}
	return b.String()
}

func snapStr(s model.Snap) string {
	var b bytes.Buffer
	for _, k := range s.Keys() {
		fmt.Fprintf(&b, "%q=%q ", k, s[k])
	}
	return b.String()
}

// CheckAllVersions runs the read battery on the working tree and on every retained version
// (via GetImmutable) and checks GetVersioned.
func (e *Env) CheckAllVersions(universe [][]byte, maxOld int) {
	if e.Dead {
		return
	}
	probes := Probes(universe, e.M.Work)
	e.CheckReads(e.T, e.M.Work, "work", probes)
	vs := e.M.Versions()
	// newest first, bounded
	cnt := 0
	for i := len(vs) - 1; i >= 0 && cnt < maxOld; i-- {
		v := vs[i]
		cnt++
		snap := e.M.Vers[v]
		where := "old"
		if v == e.M.Latest {
			where = "latest"
		}
		it, err := e.T.GetImmutable(v)
		if err != nil {
			e.bad("reads|"+where+"|getimmutable-error", "GetImmutable(%d) of a retained version: %v", v, err)
			continue
		}
		pr := Probes(universe, snap)
		e.CheckReads(it, snap, where, pr)
		if it.Version() != v {
			e.bad("reads|"+where+"|version", "GetImmutable(%d).Version()=%d", v, it.Version())
		}
		for _, k := range pr {
			got, err := e.T.GetVersioned(k, v)
			if err != nil {
				e.bad("reads|"+where+"|getversioned-error", "GetVersioned(%q,%d): %v", k, v, err)
			} else if !eqVal(got, valOrNil(snap, k)) {
				e.bad("reads|"+where+"|getversioned", "GetVersioned(%q,%d)=%q, model says %q", k, v, got, valOrNil(snap, k))
			}
		}
		e.C.Obs("versions_read", 1)
	}
}

var _ Reader = (*iavl.ImmutableTree)(nil)
var _ Reader = (*iavl.MutableTree)(nil)

// ProofCheckable reports whether the ICS-23 verifier can judge a proof for key k in a version with
// contents snap: ics23's LeafOp rejects empty values, so a membership proof of a key with an empty
// value, and a non-membership proof whose neighbour has an empty value, cannot verify whatever the
// tree does (a limit of the trusted verifier, not of iavl).
func ProofCheckable(snap model.Snap, k []byte) bool {
	// (the same holds for the empty KEY: ics23's LeafOp needs a key, so neither the empty key nor
	// an absent key whose neighbour is the empty key can be proven to that verifier)
	if len(k) == 0 {
		return false
	}
	if v, ok := snap[string(k)]; ok {
		return len(v) > 0
	}
	keys := snap.Keys()
	i := sort.SearchStrings(keys, string(k))
	if i > 0 && (len(snap[keys[i-1]]) == 0 || len(keys[i-1]) == 0) {
		return false
	}
	if i < len(keys) && len(snap[keys[i]]) == 0 {
		return false
	}
	return true
}
