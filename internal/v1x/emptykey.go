package v1x

import "bytes"

// EmptyKeyVariant rewrites every 7th plan so that one key of its universe is the EMPTY byte string
// (a legal tree key: it sorts before every other key). The replacement is consistent over the
// universe and all operations, so the planned history keeps its meaning. (Deterministic in the
// case index: the planner's random stream is not touched.)
func EmptyKeyVariant(pl *Plan, index int) bool {
	if index%7 != 3 || len(pl.Universe) == 0 {
		return false
	}
	victim := append([]byte(nil), pl.Universe[index%len(pl.Universe)]...)
	empty := []byte{}
	for i, k := range pl.Universe {
		if bytes.Equal(k, victim) {
			pl.Universe[i] = empty
		}
	}
	for i := range pl.Ops {
		if pl.Ops[i].K != nil && bytes.Equal(pl.Ops[i].K, victim) {
			pl.Ops[i].K = empty
		}
	}
	return true
}
