package v1x

import "bytes"

// EmptyKeyVariant rewrites every 7th plan so that one key of its universe is the EMPTY byte string
// (a legal tree key: it sorts before every other key). The replacement is consistent over the
// universe and all operations, so the planned history keeps its meaning. (Deterministic in the
// case index: the planner's random stream is not touched.)
func EmptyKeyVariant(pl *Plan, index int) bool {
	BoundaryLengthVariant(pl, index)
	if index%7 != 3 || len(pl.Universe) == 0 {
		return false
	}
	victim := append([]byte(nil), pl.Universe[index%len(pl.Universe)]...)
	empty := []byte{}
	for i, k := range pl.Universe {
		if bytes.Equal(k, victim) {
			pl.Universe[i] = empty
		}
	}
	for i := range pl.Ops {
		if pl.Ops[i].K != nil && bytes.Equal(pl.Ops[i].K, victim) {
			pl.Ops[i].K = empty
		}
	}
	return true
}

// BoundaryLengthVariant rewrites every 7th plan (not the ones of EmptyKeyVariant) so that one key of
// its universe is padded to a length at which a length prefix changes its width or a one-byte fast
// path ends - exactly 127, 128, 129, 255 or 256 bytes - and the values written to it get such a
// length too. Consistent over the universe and all operations; deterministic in the case index.
func BoundaryLengthVariant(pl *Plan, index int) bool {
	if index%7 != 5 || len(pl.Universe) == 0 {
		return false
	}
	victim := append([]byte(nil), pl.Universe[index%len(pl.Universe)]...)
	if len(victim) == 0 || len(victim) > 100 {
		return false
	}
	l := []int{128, 127, 129, 255, 256}[index/7%5]
	pad := func(b []byte) []byte {
		out := append([]byte(nil), b...)
		for len(out) < l {
			out = append(out, 'p')
		}
		return out
	}
	long := pad(victim)
	for _, k := range pl.Universe {
		if bytes.Equal(k, long) {
			return false
		}
	}
	for i, k := range pl.Universe {
		if bytes.Equal(k, victim) {
			pl.Universe[i] = long
		}
	}
	for i := range pl.Ops {
		if pl.Ops[i].K != nil && bytes.Equal(pl.Ops[i].K, victim) {
			pl.Ops[i].K = long
			if pl.Ops[i].Kind == "set" && pl.Ops[i].V != nil && len(pl.Ops[i].V) > 0 && len(pl.Ops[i].V) < l {
				pl.Ops[i].V = pad(pl.Ops[i].V)
			}
		}
	}
	return true
}
