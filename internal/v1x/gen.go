package v1x

import (
	"fmt"
	"math/rand"
)

// GenParams steers the history planner.
type GenParams struct {
	MinOps, MaxOps int
	// Weights of op kinds (0 = never).
	W map[string]int
	// MaxKeys bounds the key universe (chosen in 1..MaxKeys).
	MaxKeys int
	// Configs restricts the configuration matrix.
	Backends   []string
	Caches     []int
	Flushes    []int
	FastModes  []int // 0 = off, 1 = on, 2 = random per (re)open
	Initials   []int64
	AllowNil   bool // generate Set(k,nil)
	InvalidPct int  // percentage of version arguments drawn outside the retained range
	BigValues  bool // occasionally use values of several hundred bytes (forces batch splits)
	// KeepBase: never delete the version the working tree is based on / versions >= base.
}

// DefaultW is a balanced op mix.
func DefaultW() map[string]int {
	return map[string]int{"set": 40, "rm": 14, "save": 18, "rollback": 3, "reopen": 5, "load": 3, "delto": 6, "lfo": 3, "delfrom": 1, "redo": 2}
}

// Universe draws a key universe of a hostile shape.
func Universe(rng *rand.Rand, maxKeys int) [][]byte {
	n := 1 + rng.Intn(maxKeys)
	var pool [][]byte
	switch rng.Intn(6) {
	case 0: // single letters
		for c := byte('a'); c <= 'z'; c++ {
			pool = append(pool, []byte{c})
		}
	case 1: // adjacent and prefix-related
		for _, s := range []string{"a", "a\x00", "a\x00\x00", "ab", "aa", "b", "b\x00", "ba", "\x00", "\x00\x00", "\xff", "\xff\xff", "\xfe\xff", "ab\xff", "abc", "c"} {
			pool = append(pool, []byte(s))
		}
	case 2: // one-byte keys over the whole range
		for _, c := range []byte{0, 1, 2, 0x61, 0x62, 0x7f, 0x80, 0xfe, 0xff, 0x73, 0x66, 0x6d, 0x6e, 0x6f, 0x72} {
			pool = append(pool, []byte{c})
		}
	case 3: // long keys with a long common prefix
		pre := make([]byte, 100+rng.Intn(200))
		for i := range pre {
			pre[i] = byte('A' + rng.Intn(3))
		}
		for i := 0; i < 16; i++ {
			k := append(append([]byte(nil), pre...), byte(i), byte(rng.Intn(3)))
			pool = append(pool, k)
		}
	case 4: // numeric strings (ascending insertion friendly)
		for i := 0; i < 40; i++ {
			pool = append(pool, []byte(fmt.Sprintf("k%03d", i)))
		}
	default: // random short byte strings
		for i := 0; i < 24; i++ {
			k := make([]byte, 1+rng.Intn(4))
			for j := range k {
				k[j] = []byte{0, 1, 'a', 'b', 0xfe, 0xff}[rng.Intn(6)]
			}
			pool = append(pool, k)
		}
	}
	rng.Shuffle(len(pool), func(i, j int) { pool[i], pool[j] = pool[j], pool[i] })
	seen := map[string]bool{}
	var u [][]byte
	for _, k := range pool {
		if !seen[string(k)] {
			seen[string(k)] = true
			u = append(u, k)
		}
		if len(u) == n {
			break
		}
	}
	return u
}

func pickInt(rng *rand.Rand, xs []int, def int) int {
	if len(xs) == 0 {
		return def
	}
	return xs[rng.Intn(len(xs))]
}

// DrawConfig draws one configuration.
func DrawConfig(rng *rand.Rand, p *GenParams) Config {
	c := Config{}
	c.Cache = pickInt(rng, p.Caches, []int{0, 1, 3, 1000}[rng.Intn(4)])
	c.Flush = pickInt(rng, p.Flushes, []int{0, 0, 150, 300, 800}[rng.Intn(5)])
	switch pickInt(rng, p.FastModes, 2) {
	case 0:
		c.Fast = false
	case 1:
		c.Fast = true
	default:
		c.Fast = rng.Intn(2) == 0
	}
	c.Sync = rng.Intn(4) == 0
	if len(p.Initials) > 0 {
		c.Initial = p.Initials[rng.Intn(len(p.Initials))]
	}
	if len(p.Backends) > 0 {
		c.Backend = p.Backends[rng.Intn(len(p.Backends))]
	} else {
		c.Backend = "mem"
	}
	return c
}

// Plan is a generated history.
type Plan struct {
	Cfg      Config
	Universe [][]byte
	Ops      []Op
}

// Summary is a compact written-out form for evidence samples.
func (p *Plan) Summary(max int) map[string]any {
	var ops []string
	for i, o := range p.Ops {
		if i >= max {
			ops = append(ops, fmt.Sprintf("… %d more", len(p.Ops)-max))
			break
		}
		ops = append(ops, o.String())
	}
	return map[string]any{"config": p.Cfg.String(), "ops": ops}
}

// MakePlan generates a history using the oracles only (no iavl), so the same plan can be
// executed several times (twins, configurations).
func MakePlan(rng *rand.Rand, p *GenParams) *Plan {
	return MakePlanFrom(rng, p, nil, nil)
}

// MakePlanFrom plans a history that continues from an existing oracle state (cloned) over a
// given key universe.
func MakePlanFrom(rng *rand.Rand, p *GenParams, from *Oracle, universe [][]byte) *Plan {
	cfg := DrawConfig(rng, p)
	pl := &Plan{Cfg: cfg, Universe: universe}
	if universe == nil {
		pl.Universe = Universe(rng, p.MaxKeys)
	}
	o := NewOracle(cfg.Initial)
	if from != nil {
		o = &Oracle{M: from.M.Clone(), R: from.R.Clone()}
	}
	nops := p.MinOps + rng.Intn(p.MaxOps-p.MinOps+1)
	total := 0
	kinds := []string{"set", "rm", "save", "rollback", "reopen", "load", "delto", "lfo", "delfrom"}
	for _, k := range kinds {
		total += p.W[k]
	}
	vcount := 0
	val := func() []byte {
		vcount++
		switch r := rng.Intn(20); {
		case r == 0:
			return []byte{}
		case r == 1 && p.BigValues:
			b := make([]byte, 200+rng.Intn(400))
			for i := range b {
				b[i] = byte('a' + (vcount+i)%26)
			}
			return b
		}
		return []byte(fmt.Sprintf("v%d", vcount))
	}
	// insertion order style for sets
	style := rng.Intn(4)
	cursor := 0
	pickKey := func() []byte {
		u := pl.Universe
		switch style {
		case 0:
			return u[rng.Intn(len(u))]
		case 1: // ascending sweep
			cursor++
			return sortedKey(u, cursor%len(u))
		case 2: // descending sweep
			cursor++
			return sortedKey(u, len(u)-1-cursor%len(u))
		default: // alternating ends
			cursor++
			if cursor%2 == 0 {
				return sortedKey(u, (cursor/2)%len(u))
			}
			return sortedKey(u, len(u)-1-(cursor/2)%len(u))
		}
	}
	version := func(valid bool) int64 {
		M := o.M
		if !valid || M.Latest == 0 {
			switch rng.Intn(4) {
			case 0:
				return M.Latest + 1
			case 1:
				return M.First - 1
			case 2:
				return M.Latest + 1 + int64(rng.Intn(3))
			default:
				if M.First > 1 {
					return int64(rng.Intn(int(M.First)))
				}
				return M.Latest + 2
			}
		}
		return M.First + int64(rng.Intn(int(M.Latest-M.First+1)))
	}
	// writes[v] = the Set/Remove ops that turned version v-1 into version v (for "redo")
	writes := map[int64][]Op{}
	var cur []Op
	emit := func(op Op) {
		base := o.M.Base
		x := o.Apply(op)
		pl.Ops = append(pl.Ops, op)
		switch op.Kind {
		case "set", "rm":
			cur = append(cur, op)
		case "save":
			if !x.Fail && !x.Existing && x.Version == base+1 {
				writes[x.Version] = cur
			}
			cur = nil
		default:
			cur = nil
		}
	}
	total += p.W["redo"]
	for len(pl.Ops) < nops {
		r := rng.Intn(total)
		if r >= total-p.W["redo"] {
			// redo: load version v-1 and repeat exactly the writes of the existing version v
			M := o.M
			var cands []int64
			for v := range writes {
				if M.Exists(v) && M.Exists(v-1) {
					cands = append(cands, v)
				}
			}
			if len(cands) == 0 {
				continue
			}
			v := cands[0]
			for _, c := range cands {
				if c > v {
					v = c
				}
			}
			if rng.Intn(3) == 0 {
				v = cands[rng.Intn(len(cands))]
			}
			ws := writes[v]
			emit(Op{Kind: "load", N: v - 1})
			for _, w := range ws {
				emit(w)
			}
			emit(Op{Kind: "save"})
			continue
		}
		kind := ""
		for _, k := range kinds {
			if r < p.W[k] {
				kind = k
				break
			}
			r -= p.W[k]
		}
		M := o.M
		op := Op{Kind: kind}
		valid := rng.Intn(100) >= p.InvalidPct
		switch kind {
		case "set":
			op.K = pickKey()
			if p.AllowNil && rng.Intn(40) == 0 {
				op.V = nil
			} else if cur, ok := M.Work[string(op.K)]; ok && rng.Intn(8) == 0 {
				op.V = []byte(cur) // identical rewrite
			} else {
				op.V = val()
			}
		case "rm":
			// mostly present keys
			if len(M.Work) > 0 && rng.Intn(5) != 0 {
				ks := M.Work.Keys()
				op.K = []byte(ks[rng.Intn(len(ks))])
			} else {
				op.K = pickKey()
			}
		case "save", "rollback":
		case "reopen":
			c := DrawConfig(rng, p)
			op.Cfg = &c
			op.N = 0
			if M.Latest > 0 && rng.Intn(4) == 0 {
				op.N = version(valid)
			}
		case "load":
			if M.Latest == 0 && valid {
				continue
			}
			op.N = version(valid)
		case "delto":
			if M.Latest == 0 {
				continue
			}
			if valid {
				// delete up to something below the base version of the working tree
				hi := M.Base - 1
				if hi > M.Latest-1 {
					hi = M.Latest - 1
				}
				if rng.Intn(6) == 0 && M.First > 1 {
					// a target that is already pruned (non-monotonic prune requests): a legal no-op
					op.N = int64(rng.Intn(int(M.First)))
				} else if hi < M.First {
					if rng.Intn(3) != 0 {
						continue
					}
					op.N = M.First - 1 // no-op deletion
				} else {
					op.N = M.First + int64(rng.Intn(int(hi-M.First+1)))
					if rng.Intn(3) == 0 {
						op.N = M.First // single version
					}
				}
			} else {
				op.N = M.Latest + int64(rng.Intn(2))
			}
		case "lfo", "delfrom":
			if M.Latest == 0 {
				continue
			}
			op.N = version(valid)
			if kind == "delfrom" && !M.Exists(op.N) {
				continue
			}
			if op.N <= 0 {
				// 0 means "latest" to LoadVersion; rolling back "to 0" is outside every property's domain
				continue
			}
		}
		emit(op)
	}
	return pl
}

func sortedKey(u [][]byte, i int) []byte {
	// u is small; selection by rank
	s := make([]string, len(u))
	for j, k := range u {
		s[j] = string(k)
	}
	// insertion sort
	for a := 1; a < len(s); a++ {
		for b := a; b > 0 && s[b] < s[b-1]; b-- {
			s[b], s[b-1] = s[b-1], s[b]
		}
	}
	return []byte(s[i])
}
