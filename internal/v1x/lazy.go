package v1x

import "fmt"

// LazyPrefix turns every 5th case into a history whose first handle is never Load()ed before it
// is written to, and puts a short prefix in front of the planned operations: writes, then a
// LoadVersion on the store that still has no version (it loads nothing and keeps the working
// tree), with or without a Rollback after it. The planned history was planned from the empty
// state; it stays valid because none of its preconditions depends on uncommitted writes.
// (Deterministic in the case index: the planner's random stream is not touched.)
func LazyPrefix(pl *Plan, index int) {
	if index%5 != 4 || len(pl.Universe) < 2 {
		return
	}
	pl.Cfg.NoLoad = true
	k1, k2 := pl.Universe[0], pl.Universe[len(pl.Universe)-1]
	val := func(i int) []byte { return []byte(fmt.Sprintf("p%d", i)) }
	var pre []Op
	switch (index / 5) % 3 {
	case 0:
		pre = []Op{{Kind: "set", K: k1, V: val(1)}, {Kind: "load", N: 0}, {Kind: "rollback"}}
	case 1:
		pre = []Op{{Kind: "set", K: k1, V: val(1)}, {Kind: "set", K: k2, V: val(2)}, {Kind: "load", N: 0}}
	default:
		pre = []Op{{Kind: "set", K: k1, V: val(1)}, {Kind: "rm", K: k1}, {Kind: "set", K: k2, V: val(2)}, {Kind: "load", N: -1}, {Kind: "rollback"}, {Kind: "set", K: k1, V: val(3)}}
	}
	pl.Ops = append(pre, pl.Ops...)
}
