package v1x

import (
	"bytes"
	"fmt"
	"sort"

	corestore "cosmossdk.io/core/store"

	"verif/internal/codec"
	"verif/internal/model"
)

// Raw is the decoded raw image of a store.
type Raw struct {
	S       map[codec.NK][]byte // every 's' entry: raw value
	Fast    map[string]*codec.FastNode
	Label   string
	HasLbl  bool
	Legacy  map[string][]byte // 'n' entries keyed by hash
	LRoots  map[int64][]byte  // 'r' entries
	Orphans int               // 'o' entries
	Other   [][]byte          // keys in no known key space
	SOrder  []codec.NK        // s keys in storage iteration order
	Errs    []string
}

// ScanRaw reads every entry of a store through plain iteration and decodes the key spaces with D.
func ScanRaw(s corestore.KVStoreWithBatch) (*Raw, error) {
	r := &Raw{S: map[codec.NK][]byte{}, Fast: map[string]*codec.FastNode{}, Legacy: map[string][]byte{}, LRoots: map[int64][]byte{}}
	it, err := s.Iterator(nil, nil)
	if err != nil {
		return nil, err
	}
	defer it.Close()
	for ; it.Valid(); it.Next() {
		k := append([]byte(nil), it.Key()...)
		v := append([]byte{}, it.Value()...)
		switch {
		case len(k) == 13 && k[0] == 's':
			nk, _ := codec.ParseNK(k[1:])
			r.S[nk] = v
			r.SOrder = append(r.SOrder, nk)
		case k[0] == 'f':
			fn, err := codec.DecodeFast(k[1:], v)
			if err != nil {
				r.Errs = append(r.Errs, fmt.Sprintf("fast entry %q: %v", k[1:], err))
				continue
			}
			r.Fast[string(k[1:])] = fn
		case bytes.Equal(k, codec.LabelKey):
			r.Label, r.HasLbl = string(v), true
		case k[0] == 'n' && len(k) == 33:
			r.Legacy[string(k[1:])] = v
		case k[0] == 'r' && len(k) == 9:
			var ver int64
			for _, b := range k[1:] {
				ver = ver<<8 | int64(b)
			}
			r.LRoots[ver] = v
		case k[0] == 'o':
			r.Orphans++
		default:
			r.Other = append(r.Other, k)
		}
	}
	return r, it.Error()
}

// resolve finds the stored node for a child/root reference, applying the (v,1)->(v,0) rule.
func (r *Raw) resolve(nk codec.NK) (codec.NK, []byte, bool) {
	if v, ok := r.S[nk]; ok {
		return nk, v, true
	}
	if nk.Nonce == 1 {
		alt := codec.NK{Version: nk.Version, Nonce: 0}
		if v, ok := r.S[alt]; ok {
			return alt, v, true
		}
	}
	return nk, nil, false
}

// DTree is a tree decoded from raw storage.
type DTree struct {
	Root *DNode
	Kind string // root entry kind
}

type DNode struct {
	*codec.Node
	At          codec.NK // storage key it was found under
	L, R        *DNode
	LegacyChild bool
}

// DecodeVersion decodes the tree of version v from the raw image; reached collects the storage
// keys visited.
func (r *Raw) DecodeVersion(v int64, reached map[codec.NK]bool) (*DTree, error) {
	rk := codec.NK{Version: v, Nonce: 1}
	val, ok := r.S[rk]
	if !ok {
		return nil, fmt.Errorf("no root entry %v", rk)
	}
	kind, ref, err := codec.ClassifyRoot(val)
	if err != nil {
		return nil, err
	}
	t := &DTree{Kind: kind}
	reached[rk] = true
	switch kind {
	case codec.RootEmpty:
		return t, nil
	case codec.RootNode:
		t.Root, err = r.decodeSub(rk, reached, 0)
	default:
		t.Root, err = r.decodeSub(ref, reached, 0)
	}
	return t, err
}

func (r *Raw) decodeSub(nk codec.NK, reached map[codec.NK]bool, depth int) (*DNode, error) {
	if depth > 200 {
		return nil, fmt.Errorf("depth > 200 at %v (cycle?)", nk)
	}
	at, val, ok := r.resolve(nk)
	if !ok {
		return nil, fmt.Errorf("dangling reference %v", nk)
	}
	reached[at] = true
	n, err := codec.DecodeNode(nk, val)
	if err != nil {
		return nil, fmt.Errorf("node %v: %w", at, err)
	}
	d := &DNode{Node: n, At: at}
	if n.IsLeaf() {
		return d, nil
	}
	if n.LeftLegacy != nil || n.RightLegacy != nil {
		d.LegacyChild = true
		return d, nil
	}
	if d.L, err = r.decodeSub(n.Left, reached, depth+1); err != nil {
		return nil, err
	}
	if d.R, err = r.decodeSub(n.Right, reached, depth+1); err != nil {
		return nil, err
	}
	return d, nil
}

// Leaves returns the in-order leaves.
func (t *DTree) Leaves() (keys, vals []string) {
	var rec func(d *DNode)
	rec = func(d *DNode) {
		if d == nil {
			return
		}
		if d.IsLeaf() {
			keys = append(keys, string(d.Key))
			vals = append(vals, string(d.Value))
			return
		}
		rec(d.L)
		rec(d.R)
	}
	rec(t.Root)
	return
}

// AuditStorage is the C12 monitor: reachability of stored nodes from the retained versions.
// Returns the number of nodes audited.
func (e *Env) AuditStorage(checkFast bool) int {
	if e.Dead {
		return 0
	}
	raw, err := ScanRaw(e.W.Inner)
	if err != nil {
		e.bad("audit|scan|error", "raw scan failed: %v", err)
		return 0
	}
	return e.AuditRaw(raw, checkFast)
}

func (e *Env) AuditRaw(raw *Raw, checkFast bool) int {
	for _, m := range raw.Errs {
		e.bad("audit|decode|fast-entry", "%s", m)
	}
	if len(raw.Other) > 0 {
		// keys outside the node / fast / metadata / legacy key spaces are not the subject of any property
		e.C.Obs("raw_keys_outside_known_key_spaces(recorded,not_alarmed)", len(raw.Other))
	}
	reached := map[codec.NK]bool{}
	for _, v := range e.M.Versions() {
		t, err := raw.DecodeVersion(v, reached)
		if err != nil {
			e.bad("audit|missing|"+classifyMissing(err), "retained version %d is not readable from raw storage: %v", v, err)
			continue
		}
		keys, vals := t.Leaves()
		snap := e.M.Vers[v]
		if !sameSeq(keys, vals, snap.Keys(), snap) {
			e.bad("audit|contents|raw-tree", "raw tree of version %d holds %s, model has %s", v, pairsStr(keys, vals), snapStr(snap))
		}
	}
	// leaks: anything not reached
	var leaks []codec.NK
	for nk := range raw.S {
		if !reached[nk] {
			leaks = append(leaks, nk)
		}
	}
	sort.Slice(leaks, func(i, j int) bool {
		if leaks[i].Version != leaks[j].Version {
			return leaks[i].Version < leaks[j].Version
		}
		return leaks[i].Nonce < leaks[j].Nonce
	})
	for _, nk := range leaks {
		val := raw.S[nk]
		kind := "node"
		if nk.Nonce == 1 {
			if k, _, err := codec.ClassifyRoot(val); err == nil && k != codec.RootNode {
				kind = "root-" + k
			} else if !e.M.Exists(nk.Version) {
				kind = "root-node"
			}
		}
		where := "retained-range"
		if nk.Version < e.M.First || e.M.First == 0 {
			where = "below-first"
		} else if nk.Version > e.M.Latest {
			where = "above-latest"
		}
		e.bad("audit|leak|"+kind+"|"+where, "stored entry %v (%s) is not reachable from any retained version %v (first=%d latest=%d); %d unreachable entries in total: %v",
			nk, kind, e.M.Versions(), e.M.First, e.M.Latest, len(leaks), leaks)
		break
	}
	if checkFast {
		e.AuditFast(raw)
	}
	e.C.Obs("raw_nodes_audited", len(raw.S))
	e.C.Obs("raw_audits", 1)
	return len(raw.S)
}

func classifyMissing(err error) string {
	s := err.Error()
	switch {
	case bytes.Contains([]byte(s), []byte("no root entry")):
		return "root-entry"
	case bytes.Contains([]byte(s), []byte("dangling")):
		return "dangling-child"
	}
	return "undecodable"
}

// AuditFast checks that the persisted fast index describes exactly the latest version.
func (e *Env) AuditFast(raw *Raw) {
	latest := model.Snap{}
	if e.M.Latest > 0 {
		latest = e.M.Vers[e.M.Latest]
	}
	want := fmt.Sprintf("1.1.0-%d", e.M.Latest)
	if !raw.HasLbl || raw.Label != want {
		e.bad("audit|fast|label", "storage version label is %q (present=%v), want %q", raw.Label, raw.HasLbl, want)
	}
	var gk, gv []string
	keys := make([]string, 0, len(raw.Fast))
	for k := range raw.Fast {
		keys = append(keys, k)
	}
	sort.Strings(keys)
	for _, k := range keys {
		gk = append(gk, k)
		gv = append(gv, string(raw.Fast[k].Value))
	}
	if !sameSeq(gk, gv, latest.Keys(), latest) {
		e.bad("audit|fast|entries", "persisted fast index holds %s, latest version %d holds %s", pairsStr(gk, gv), e.M.Latest, snapStr(latest))
	}
	for _, k := range keys {
		fn := raw.Fast[k]
		if fn.Version > e.M.Latest || fn.Version <= 0 {
			e.bad("audit|fast|entry-version", "fast entry %q carries version %d, latest is %d", k, fn.Version, e.M.Latest)
			break
		}
	}
	e.C.Obs("fast_audits", 1)
}
