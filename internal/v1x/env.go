// Package v1x executes generated histories against the real iavl v1 tree in lock-step with the
// oracles M (versioned map) and R (reference IAVL+), over an instrumented storage seam.
package v1x

import (
	"bytes"
	"errors"
	"fmt"
	"os"
	"path/filepath"
	"strings"
	"time"

	corestore "cosmossdk.io/core/store"
	"github.com/cosmos/iavl"
	dbm "github.com/cosmos/iavl/db"

	"verif/internal/fw"
	"verif/internal/model"
	"verif/internal/ref"
	"verif/internal/seam"
)

// Config is one point of the configuration matrix.
type Config struct {
	Cache   int
	Fast    bool
	Flush   int // 0 = default
	Sync    bool
	Initial int64 // 0 = unset
	Backend string
	// NoLoad: the first handle on the (empty) store is used without an initial Load()
	NoLoad bool
	// Async: background pruning (AsyncPruningOption). DeleteVersionsTo only files a request; the
	// executor waits until the pruning goroutine has taken the versions out of the available range
	// (the deletions themselves stay in the pending batch until the next commit: Env.AsyncPending).
	Async bool
}

func (c Config) String() string {
	s := fmt.Sprintf("cache=%d fast=%v flush=%d sync=%v initial=%d backend=%s", c.Cache, c.Fast, c.Flush, c.Sync, c.Initial, c.Backend)
	if c.NoLoad {
		s += " no-initial-Load"
	}
	if c.Async {
		s += " async-pruning"
	}
	return s
}

// Op is one step of a history.
type Op struct {
	Kind string // set rm save rollback reopen load delto lfo delfrom
	K, V []byte
	N    int64   // version argument (load / delto / lfo / delfrom / reopen target; 0 = latest)
	Cfg  *Config // reopen
}

func (o Op) String() string {
	switch o.Kind {
	case "set":
		return fmt.Sprintf("Set(%q,%q)", o.K, o.V)
	case "rm":
		return fmt.Sprintf("Remove(%q)", o.K)
	case "reopen":
		return fmt.Sprintf("Reopen{%s}.LoadVersion(%d)", o.Cfg, o.N)
	case "save", "rollback":
		return strings.ToUpper(o.Kind[:1]) + o.Kind[1:] + "()"
	}
	return fmt.Sprintf("%s(%d)", o.Kind, o.N)
}

// Env is the execution environment of one history.
type Env struct {
	C    *fw.Ctx
	Cfg  Config
	Base corestore.KVStoreWithBatch
	W    *seam.Wrap
	T    *iavl.MutableTree
	M    *model.Model
	R    *ref.History
	Step int
	Dead bool // the history cannot be continued (state diverged / unexpected error)

	closers []func()
	Log     []string
	// FastEver is true once any handle was opened with the fast index enabled.
	FastEver bool
	// LastSaveHash is the hash returned by the last successful SaveVersion.
	LastSaveHash []byte
	// Hashes returned by iavl at commit, per version.
	CommitHash map[int64][]byte
	// AsyncPending: background pruning has processed a request whose deletions have not been
	// flushed by a commit yet (a fresh handle on the same store still sees the old range).
	AsyncPending bool
}

// NewBase creates the underlying store for a backend name.
func NewBase(backend, tmp string, closers *[]func()) (corestore.KVStoreWithBatch, error) {
	switch backend {
	case "", "mem":
		return seam.NewMemStore(), nil
	case "memdb":
		return dbm.NewMemDB(), nil
	case "prefix":
		// (the prefix slices have spare capacity, as a prefix assembled in a buffer or by string
		// concatenation has: code that appends to the prefix without copying it corrupts its neighbours)
		return dbm.NewPrefixDB(dbm.NewMemDB(), append(make([]byte, 0, 64), []byte("s/k:store/")...)), nil
	case "prefixff":
		return dbm.NewPrefixDB(seam.NewMemStore(), append(make([]byte, 0, 32), 0xff, 0xff)), nil
	case "goleveldb":
		dir, err := os.MkdirTemp(tmp, "ldb")
		if err != nil {
			return nil, err
		}
		d, err := dbm.NewGoLevelDB("t", dir)
		if err != nil {
			return nil, err
		}
		*closers = append(*closers, func() { d.Close(); os.RemoveAll(dir) })
		return d, nil
	}
	return nil, fmt.Errorf("unknown backend %q", backend)
}

// NewEnv opens a fresh tree on a fresh store.
func NewEnv(c *fw.Ctx, cfg Config) (*Env, error) {
	e := &Env{C: c, Cfg: cfg, CommitHash: map[int64][]byte{}}
	base, err := NewBase(cfg.Backend, c.TmpDir, &e.closers)
	if err != nil {
		return nil, err
	}
	e.Base = base
	e.W = seam.NewWrap(base)
	e.M = model.New(cfg.Initial)
	e.R = ref.NewHistory(cfg.Initial)
	e.T = e.open(cfg)
	if cfg.NoLoad {
		// a fresh tree may be written to without ever calling Load(); a later LoadVersion then
		// meets a store without versions and a working tree that is already dirty
		c.Obs("histories_without_initial_Load", 1)
		return e, nil
	}
	if _, err := e.T.Load(); err != nil {
		return nil, fmt.Errorf("Load on empty store: %w", err)
	}
	return e, nil
}

// NewEnvOn opens an env over an existing store with given oracles (used for cuts / twins).
func NewEnvOn(c *fw.Ctx, cfg Config, base corestore.KVStoreWithBatch, m *model.Model, r *ref.History) *Env {
	e := &Env{C: c, Cfg: cfg, Base: base, M: m, R: r, CommitHash: map[int64][]byte{}}
	e.W = seam.NewWrap(base)
	e.T = e.open(cfg)
	return e
}

func (e *Env) Close() {
	for _, f := range e.closers {
		f()
	}
	e.closers = nil
}

// Options builds the iavl options for a config.
func Options(cfg Config) []iavl.Option {
	var opts []iavl.Option
	if cfg.Flush > 0 {
		opts = append(opts, iavl.FlushThresholdOption(cfg.Flush))
	}
	if cfg.Sync {
		opts = append(opts, iavl.SyncOption(true))
	}
	if cfg.Initial > 0 {
		opts = append(opts, iavl.InitialVersionOption(uint64(cfg.Initial)))
	}
	if cfg.Async {
		opts = append(opts, iavl.AsyncPruningOption(true))
	}
	return opts
}

func (e *Env) open(cfg Config) *iavl.MutableTree {
	if cfg.Fast {
		e.FastEver = true
	}
	t := iavl.NewMutableTree(e.W, cfg.Cache, !cfg.Fast, iavl.NewNopLogger(), Options(cfg)...)
	if cfg.Async {
		e.closers = append(e.closers, func() { _ = t.Close() }) // stops the pruning goroutine
	}
	return t
}

// OpenHandle opens an additional handle on the same store (fresh caches).
func (e *Env) OpenHandle(cfg Config) *iavl.MutableTree {
	cfg.Async = false // observation handles do not prune (and must not leave a goroutine behind)
	return iavl.NewMutableTree(e.W, cfg.Cache, !cfg.Fast, iavl.NewNopLogger(), Options(cfg)...)
}

func (e *Env) logf(format string, a ...any) {
	s := fmt.Sprintf(format, a...)
	e.Log = append(e.Log, s)
	e.C.Logf("%s", s)
}

func (e *Env) bad(sig, format string, a ...any) {
	e.C.Violate(e.Step, sig, "%s\n  history: %s", fmt.Sprintf(format, a...), e.Tail(40))
}

// Bad records a violation with the history tail attached.
func (e *Env) Bad(sig, format string, a ...any) { e.bad(sig, format, a...) }

// Tail returns the last n log lines.
func (e *Env) Tail(n int) string {
	l := e.Log
	if len(l) > n {
		l = l[len(l)-n:]
	}
	return "[" + e.Cfg.String() + "] " + strings.Join(l, "; ")
}

// Oracle is M and R advanced in lock-step; it predicts the outcome of every op and imports
// nothing from iavl.
type Oracle struct {
	M *model.Model
	R *ref.History
}

func NewOracle(initial int64) *Oracle {
	return &Oracle{M: model.New(initial), R: ref.NewHistory(initial)}
}

// Expect is the predicted outcome of an op.
type Expect struct {
	Fail     bool // the op must return an error and have no effect
	Noop     bool // the op is skipped by the executor (not applicable in this state)
	Updated  bool
	Val      []byte
	Removed  bool
	Hash     []byte
	Version  int64
	Latest   int64
	Existing bool // save: the version number already exists
}

// Apply advances the oracles and returns the prediction.
func (o *Oracle) Apply(op Op) Expect {
	var x Expect
	M, R := o.M, o.R
	loadR := func(target int64) {
		if target == 0 {
			target = M.Latest
		}
		if M.Latest == 0 {
			R.Work, R.Base = nil, 0
			return
		}
		R.LoadVersion(target)
	}
	switch op.Kind {
	case "set":
		if op.V == nil {
			x.Fail = true
			return x
		}
		x.Updated = M.Set(string(op.K), string(op.V))
		R.Set(op.K, op.V)
	case "rm":
		mv, ok := M.Remove(string(op.K))
		R.Remove(op.K)
		x.Removed = ok
		if ok {
			x.Val = []byte(mv)
		}
	case "save":
		wv := M.WorkingVersion()
		x.Version = wv
		x.Hash = R.WorkingHash()
		if M.Exists(wv) {
			x.Existing = true
			if bytes.Equal(x.Hash, R.Hashes[wv]) {
				M.AdoptExisting()
				R.LoadVersion(wv)
			} else {
				x.Fail = true
			}
			return x
		}
		M.Commit()
		R.Commit()
	case "rollback":
		M.Rollback()
		R.Rollback()
	case "reopen", "load":
		target := op.N
		if target < 0 {
			target = 0 // LoadVersion treats every target <= 0 as "latest"
		}
		if target != 0 && !M.Exists(target) {
			x.Fail = true
			return x
		}
		if op.Kind == "load" && M.Latest == 0 {
			// nothing to load: the handle keeps its (possibly dirty) working tree
			return x
		}
		M.Load(target)
		loadR(target)
		x.Latest = M.Latest
	case "delto":
		n := op.N
		if M.Latest == 0 || n >= M.Latest {
			x.Fail = true
			return x
		}
		for v := M.First; v <= n; v++ {
			R.Drop(v)
		}
		M.DeleteTo(n)
	case "lfo", "delfrom":
		v := op.N
		if !M.Exists(v) {
			if op.Kind == "delfrom" {
				x.Noop = true
			} else {
				x.Fail = true
			}
			return x
		}
		for y := v + 1; y <= M.Latest; y++ {
			R.Drop(y)
		}
		M.DeleteFrom(v + 1)
		M.Load(v)
		R.LoadVersion(v)
	default:
		panic("unknown op " + op.Kind)
	}
	return x
}

// ErrOutsideDomain marks an operation that was not executed because it is outside the domain of
// the properties (see Env.Apply).
var ErrOutsideDomain = errors.New("operation outside the domain: not executed")

// Outcome is what iavl returned.
type Outcome struct {
	Err     error
	Updated bool
	Val     []byte
	Removed bool
	Hash    []byte
	Version int64
	Expect  Expect
}

// Apply executes op on iavl and on the oracles; it reports executor-level disagreements
// (unexpected error / missing error) under sig prefix "exec|" and, when checkOps is set, wrong
// op results under "ops|".
func (e *Env) Apply(op Op, checkOps bool) Outcome {
	e.Step++
	var out Outcome
	if e.Dead {
		return out
	}
	if op.Kind == "delto" && e.M.Latest > 0 && op.N < e.M.Latest && op.N >= e.M.Base && e.M.Base >= e.M.First && e.M.Exists(e.M.Base) {
		// Outside every property's domain: the request would delete the committed version the
		// working tree currently stands on (its unsaved nodes still point into that version). The
		// planner never asks for it; this guard keeps harnesses that execute something besides the
		// planned operations (legacy fix-ups, injected writes) inside the domain as well.
		e.logf("%d:%s[skipped: would delete the working tree's base version %d]", e.Step, op, e.M.Base)
		e.C.Obs("prunes_of_the_working_trees_base_skipped(outside_domain)", 1)
		out.Err = ErrOutsideDomain
		out.Expect.Noop = true
		return out
	}
	if e.Cfg.Async && (op.Kind == "reopen" || (op.Kind == "delto" && (e.M.Latest == 0 || op.N >= e.M.Latest))) {
		// Background pruning: an invalid request is not answered by DeleteVersionsTo (it returns nil
		// and the pruning goroutine logs and retries), and a handle that is abandoned takes its
		// unflushed deletions with it. Neither is something a property speaks about.
		e.logf("%d:%s[skipped under background pruning]", e.Step, op)
		out.Err = ErrOutsideDomain
		out.Expect.Noop = true
		return out
	}
	e.logf("%d:%s", e.Step, op)
	o := &Oracle{M: e.M, R: e.R}
	// run iavl first (the oracle mutates M/R, and messages want the pre-state)
	first, latest := e.M.First, e.M.Latest
	switch op.Kind {
	case "set":
		out.Updated, out.Err = e.T.Set(op.K, op.V)
	case "rm":
		out.Val, out.Removed, out.Err = e.T.Remove(op.K)
	case "save":
		if e.Cfg.Async {
			e.T.SetCommitting()
		}
		out.Hash, out.Version, out.Err = e.T.SaveVersion()
		if e.Cfg.Async {
			e.T.UnsetCommitting()
		}
	case "rollback":
		e.T.Rollback()
	case "reopen":
		cfg := *op.Cfg
		cfg.Backend = e.Cfg.Backend
		cfg.Initial = 0
		if e.M.Latest == 0 {
			cfg.Initial = e.Cfg.Initial
		}
		t := e.open(cfg)
		out.Version, out.Err = t.LoadVersion(op.N)
		if out.Err == nil {
			e.T = t
			e.Cfg = cfg
		}
	case "load":
		out.Version, out.Err = e.T.LoadVersion(op.N)
	case "delto":
		out.Err = e.T.DeleteVersionsTo(op.N)
		if e.Cfg.Async && out.Err == nil {
			// bounded progress instead of "eventually": the pruning goroutine wakes up every 100 ms
			drained := false
			for i := 0; i < 20000 && !drained; i++ {
				if drained = !e.T.VersionExists(op.N); !drained {
					time.Sleep(time.Millisecond)
				}
			}
			if !drained {
				e.C.Res.Inconcl = fmt.Sprintf("background pruning did not take version %d out of the range within the bound", op.N)
				e.Dead = true
				return out
			}
			e.AsyncPending = true
			e.C.Obs("async_prune_requests_drained", 1)
		}
	case "lfo":
		out.Err = e.T.LoadVersionForOverwriting(op.N)
	case "delfrom":
		if e.M.Exists(op.N) {
			out.Err = e.T.DeleteVersionsFrom(op.N + 1)
			if out.Err == nil {
				_, out.Err = e.T.LoadVersion(op.N)
			}
		}
	default:
		panic("unknown op " + op.Kind)
	}
	x := o.Apply(op)
	out.Expect = x
	if x.Noop {
		return out
	}
	if out.Err == nil && ((op.Kind == "save" && !x.Existing) || op.Kind == "lfo" || op.Kind == "delfrom") {
		e.AsyncPending = false // these end with a batch write
	}
	if x.Fail {
		if out.Err == nil {
			e.bad("exec|"+op.Kind+"|accepted-invalid", "%s returned no error; the model says it must be rejected (first=%d latest=%d existing=%v)", op, first, latest, x.Existing)
			e.Dead = true
		}
		return out
	}
	if out.Err != nil {
		e.bad("exec|"+op.Kind+"|unexpected-error", "%s (first=%d latest=%d existing=%v): %v", op, first, latest, x.Existing, out.Err)
		e.Dead = true
		return out
	}
	switch op.Kind {
	case "set":
		if checkOps && out.Updated != x.Updated {
			e.bad("ops|set|updated", "Set(%q) reported updated=%v, model says %v", op.K, out.Updated, x.Updated)
		}
	case "rm":
		if checkOps && (out.Removed != x.Removed || !eqVal(out.Val, x.Val)) {
			e.bad("ops|rm|result", "Remove(%q) = (%q,%v), model says (%q,%v)", op.K, out.Val, out.Removed, x.Val, x.Removed)
		}
	case "save":
		if !x.Existing {
			e.CommitHash[x.Version] = out.Hash
		}
		e.LastSaveHash = out.Hash
		if checkOps && out.Version != x.Version {
			e.bad("ops|save|version", "SaveVersion returned version %d, want %d", out.Version, x.Version)
		}
	case "reopen":
		if checkOps && out.Version != x.Latest {
			// which number LoadVersion returns (latest vs loaded version) is not part of any property
			e.C.Obs("loadversion_return_value_differs_from_latest(recorded,not_alarmed)", 1)
		}
	}
	return out
}

// AbstractState summarises the state for diversity accounting.
func (e *Env) AbstractState() string {
	nv := len(e.M.Vers)
	if nv > 4 {
		nv = 4 + nv/4
	}
	kind := func(v int64) string {
		r, ok := e.R.Roots[v]
		if !ok {
			return "-"
		}
		if r == nil {
			return "e"
		}
		if r.Version != v {
			return "r" // reference root: no new node in v
		}
		if r.IsLeaf() {
			return "l"
		}
		return "i"
	}
	sz := len(e.M.Work)
	b := "0"
	switch {
	case sz == 0:
	case sz == 1:
		b = "1"
	case sz == 2:
		b = "2"
	case sz <= 8:
		b = "s"
	default:
		b = "m"
	}
	d := "c"
	if e.M.Dirty {
		d = "d"
	}
	return fmt.Sprintf("%d%s%s%s%s%s%v%v", nv, kind(e.M.Latest), kind(e.M.Latest-1), kind(e.M.Latest-2), b, d, e.Cfg.Fast, e.M.Base != e.M.Latest)
}

// ScratchDir returns a fresh directory under the case's tmp dir.
func ScratchDir(c *fw.Ctx, name string) string {
	d := filepath.Join(c.TmpDir, fmt.Sprintf("%s-%d", name, c.Index))
	_ = os.MkdirAll(d, 0o755)
	return d
}
