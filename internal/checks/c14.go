package checks

import (
	"bytes"
	"fmt"

	"github.com/cosmos/iavl"

	"verif/internal/fw"
	"verif/internal/model"
	"verif/internal/seam"
	"verif/internal/v1x"
)

// versionsToQuery returns the version numbers probed after every step.
func versionsToQuery(e *v1x.Env) []int64 {
	seen := map[int64]bool{}
	var out []int64
	add := func(v int64) {
		if v >= 0 && !seen[v] {
			seen[v] = true
			out = append(out, v)
		}
	}
	add(0)
	add(1)
	lo, hi := e.M.First-2, e.M.Latest+1
	if e.M.Latest == 0 {
		lo, hi = 0, 2
		if e.M.Initial > 0 {
			add(e.M.Initial)
			add(e.M.Initial - 1)
		}
	}
	if hi-lo > 40 {
		lo = hi - 40
	}
	for v := lo; v <= hi; v++ {
		add(v)
	}
	return out
}

// checkBookkeeping compares every version-range API of tree t with the model.
func checkBookkeeping(e *v1x.Env, t treeAPI, where string, probeKey []byte, loadToo bool) {
	c := e.C
	latest, err := t.GetLatestVersion()
	if err != nil || latest != e.M.Latest {
		e.Bad("book|"+where+"|latest", "GetLatestVersion()=(%d,%v), model says %d", latest, err, e.M.Latest)
	}
	avail := t.AvailableVersions()
	want := e.M.Versions()
	same := len(avail) == len(want)
	for i := 0; same && i < len(want); i++ {
		same = int64(avail[i]) == want[i]
	}
	if !same {
		e.Bad("book|"+where+"|available", "AvailableVersions()=%v, model says %v", avail, want)
	}
	inAvail := map[int64]bool{}
	for _, v := range avail {
		inAvail[int64(v)] = true
	}
	for _, v := range versionsToQuery(e) {
		exp := e.M.Exists(v)
		if got := t.VersionExists(v); got != exp {
			e.Bad("book|"+where+"|versionexists", "VersionExists(%d)=%v, model says %v (range [%d,%d])", v, got, exp, e.M.First, e.M.Latest)
		}
		it, err := t.GetImmutable(v)
		if (err == nil) != exp {
			e.Bad("book|"+where+"|getimmutable", "GetImmutable(%d) err=%v, model says exists=%v (range [%d,%d])", v, err, exp, e.M.First, e.M.Latest)
		} else if err == nil && it.Version() != v {
			e.Bad("book|"+where+"|getimmutable-version", "GetImmutable(%d).Version()=%d", v, it.Version())
		}
		if !exp && probeKey != nil {
			val, err := t.GetVersioned(probeKey, v)
			if val != nil || err != nil {
				e.Bad("book|"+where+"|getversioned-outside", "GetVersioned(%q,%d)=(%q,%v) for a version outside the range", probeKey, v, val, err)
			}
		}
		if loadToo && v > 0 {
			h := e.OpenHandle(e.Cfg)
			_, err := h.LoadVersion(v)
			if (err == nil) != exp {
				e.Bad("book|"+where+"|loadversion", "LoadVersion(%d) on a fresh handle: err=%v, model says exists=%v (range [%d,%d])", v, err, exp, e.M.First, e.M.Latest)
			}
		}
		c.Obs("version_queries", 1)
	}
}

type treeAPI interface {
	GetLatestVersion() (int64, error)
	AvailableVersions() []int
	VersionExists(int64) bool
	GetVersioned(key []byte, version int64) ([]byte, error)
	GetImmutable(version int64) (*iavl.ImmutableTree, error)
}

// c14ExplicitZero: the initial version is configured EXPLICITLY as 0 (InitialVersionOption(0) or
// SetInitialVersion(0)): the first commit is version 0 and the following ones must be numbered
// 1, 2, 3, ... Nothing is asked about version 0 itself (the library treats 0 as "no version" in
// several places); every version from 1 on must be available with its own contents and hash, on
// the live handle and after reopening, and the next commit after reopening continues the numbering.
func c14ExplicitZero(c *fw.Ctx) {
	rng := c.Rng
	st := seam.NewMemStore()
	cache := []int{0, 3, 1000}[rng.Intn(3)]
	fast := rng.Intn(2) == 0
	var t *iavl.MutableTree
	how := "InitialVersionOption(0)"
	if rng.Intn(2) == 0 {
		t = iavl.NewMutableTree(st, cache, !fast, iavl.NewNopLogger(), iavl.InitialVersionOption(0))
	} else {
		how = "SetInitialVersion(0)"
		t = iavl.NewMutableTree(st, cache, !fast, iavl.NewNopLogger())
		t.SetInitialVersion(0)
	}
	if rng.Intn(2) == 0 {
		if _, err := t.Load(); err != nil {
			c.Violate(0, "book|explicit-zero|load", "Load() on the empty store: %v", err)
			return
		}
		how += "+Load()"
	}
	c.Res.Digest = fw.DigestOf("explicit-zero", c.Index)
	cur := model.Snap{}
	snaps := map[int64]model.Snap{}
	hashes := map[int64][]byte{}
	n := int64(3 + rng.Intn(5))
	hist := fmt.Sprintf("[%s cache=%d fast=%v]", how, cache, fast)
	check := func(h *iavl.MutableTree, where string, latest int64) bool {
		if l, err := h.GetLatestVersion(); err != nil || l != latest {
			c.Violate(int(latest), "book|explicit-zero|latest", "%s %s: GetLatestVersion()=(%d,%v), want %d", hist, where, l, err, latest)
			return false
		}
		if h.VersionExists(latest + 1) {
			c.Violate(int(latest), "book|explicit-zero|versionexists", "%s %s: VersionExists(%d) beyond the latest version %d", hist, where, latest+1, latest)
			return false
		}
		av := h.AvailableVersions()
		for v := int64(1); v <= latest; v++ {
			if !h.VersionExists(v) {
				c.Violate(int(v), "book|explicit-zero|versionexists", "%s %s: VersionExists(%d)=false after commits 0..%d (AvailableVersions()=%v)", hist, where, v, latest, av)
				return false
			}
			it, err := h.GetImmutable(v)
			if err != nil {
				c.Violate(int(v), "book|explicit-zero|getimmutable", "%s %s: GetImmutable(%d): %v (AvailableVersions()=%v)", hist, where, v, err, av)
				return false
			}
			if !bytes.Equal(it.Hash(), hashes[v]) || int(it.Size()) != len(snaps[v]) {
				c.Violate(int(v), "book|explicit-zero|contents", "%s %s: version %d has hash %x size %d, its commit returned %x and it holds %d keys", hist, where, v, it.Hash(), it.Size(), hashes[v], len(snaps[v]))
				return false
			}
			for k, want := range snaps[v] {
				if got, err := it.Get([]byte(k)); err != nil || string(got) != want {
					c.Violate(int(v), "book|explicit-zero|contents", "%s %s: version %d Get(%q)=(%q,%v), want %q", hist, where, v, k, got, err, want)
					return false
				}
			}
			c.Obs("version_queries", 1)
		}
		if int64(len(av)) < latest {
			c.Violate(int(latest), "book|explicit-zero|available", "%s %s: AvailableVersions()=%v after commits 0..%d", hist, where, av, latest)
			return false
		}
		for i := int64(0); i < latest; i++ {
			if int64(av[len(av)-1-int(i)]) != latest-i {
				c.Violate(int(latest), "book|explicit-zero|available", "%s %s: AvailableVersions()=%v after commits 0..%d", hist, where, av, latest)
				return false
			}
		}
		return true
	}
	for v := int64(0); v <= n; v++ {
		for j := 0; j < 1+rng.Intn(3); j++ {
			k := fmt.Sprintf("k%d", rng.Intn(6))
			if _, ok := cur[k]; ok && rng.Intn(3) == 0 {
				t.Remove([]byte(k))
				delete(cur, k)
			} else {
				val := fmt.Sprintf("v%d-%d", v, j)
				t.Set([]byte(k), []byte(val))
				cur[k] = val
			}
		}
		hash, ver, err := t.SaveVersion()
		if err != nil || ver != v {
			c.Violate(int(v), "book|explicit-zero|numbering", "%s commit number %d returned version %d, err %v: commits are numbered consecutively from the configured initial version 0", hist, v+1, ver, err)
			return
		}
		snaps[v] = cur.Clone()
		hashes[v] = hash
		if !check(t, "live", v) {
			return
		}
		c.Obs("commits_after_an_explicit_initial_version_0", 1)
	}
	t2 := iavl.NewMutableTree(st, cache, !fast, iavl.NewNopLogger())
	if l, err := t2.Load(); err != nil || l != n {
		c.Violate(int(n), "book|explicit-zero|reopen", "%s Load() after reopening = (%d,%v), want %d", hist, l, err, n)
		return
	}
	if !check(t2, "reopened", n) {
		return
	}
	t2.Set([]byte("after-reopen"), []byte("x"))
	if _, ver, err := t2.SaveVersion(); err != nil || ver != n+1 {
		c.Violate(int(n), "book|explicit-zero|numbering", "%s the commit after reopening returned version %d, err %v, want %d", hist, ver, err, n+1)
		return
	}
	c.Res.Nontrivial = true
}

func init() {
	fw.Register(&fw.Check{
		ID:    "C14",
		Level: "exploration",
		Cases: func(tier string) int { return tierN(tier, 1200, 60000) },
		Rule: "case = one history (10-45 ops quick, up to 100 thorough) rich in commits without writes, empty and one-leaf trees, pruning, rollbacks to a version, reopenings at the latest or an OLDER version followed by re-commits (identical and different writes), initial version unset/1/5/63/64/1000000, invalid version arguments (12%). " +
			"After every step: commit numbering vs model; for every v in {0,1,first-2..latest+1}: VersionExists, AvailableVersions membership, GetImmutable, GetLatestVersion, GetVersioned outside the range, all on the live handle AND on a freshly opened handle (reopen), plus LoadVersion(v) on a fresh handle; a re-commit of an existing version number must succeed iff the reference tree R says the root hash is identical, a rejected re-commit or rejected deletion must leave the raw store byte-identical, and after every rejected request (load of a missing version, rollback to one, different re-commit, deletion of the latest) the same handle must answer the full model read battery of its working state incl. uncommitted writes (\"leaves the tree usable\") and goes on with the history. " +
			"Every 6th case runs with background pruning (AsyncPruningOption, SetCommitting/UnsetCommitting around commits, only valid requests, no reopen operations): after each DeleteVersionsTo the executor waits (bounded) until the pruning goroutine has taken the versions out of the range; from then on - while the deletions are still pending in the batch and the roots still in the store - every range API of that handle must agree with the model, LoadVersion of each removed version on that handle must fail and leave it where it was with its working state readable; fresh-handle comparisons wait for the next commit. " +
			"Every 40th case configures the initial version EXPLICITLY as 0 (InitialVersionOption(0) or SetInitialVersion(0), with or without an initial Load()): 4-9 commits must be numbered 0,1,2,..., every version from 1 on must be available (VersionExists, AvailableVersions, GetImmutable with the hash its commit returned and its contents, GetLatestVersion), also after reopening, and the commit after reopening continues the numbering (nothing is asked about version 0 itself). " +
			"Every 5th case uses its first handle without an initial Load(): a prefix of 3-6 operations writes to the fresh tree, then issues LoadVersion on the store that still has no version (nothing is loaded, the working tree is kept), with or without a Rollback after it, and the planned history follows. distinct = hash(config, ops); non-trivial = >=3 commits and >=1 of {prune, rollback-to-version, load of an older version, re-commit of an existing version}.",
		Assumptions: []string{"model M for the version range; reference tree R decides whether a re-commit is identical", "LoadVersion(v<=0) means 'latest' (library convention)"},
		Run: func(c *fw.Ctx) {
			if c.Index%40 == 39 {
				c14ExplicitZero(c)
				return
			}
			w := map[string]int{"set": 26, "rm": 10, "save": 30, "rollback": 3, "reopen": 8, "load": 8, "delto": 9, "lfo": 4, "delfrom": 2, "redo": 4}
			p := &v1x.GenParams{MinOps: 10, MaxOps: 45, W: w, MaxKeys: 5, InvalidPct: 12,
				Backends: []string{"mem"}, Initials: []int64{0, 0, 0, 1, 5, 63, 64, 1000000}}
			if c.Tier == "thorough" {
				p.MaxOps = 100
			}
			pl := v1x.MakePlan(c.Rng, p)
			v1x.LazyPrefix(pl, c.Index)
			if v1x.EmptyKeyVariant(pl, c.Index) {
				c.Obs("histories_with_the_empty_key", 1)
			}
			if c.Index%6 == 5 && !pl.Cfg.NoLoad {
				// background pruning: the range every API answers with is the one the pruning
				// goroutine has already established, also while its deletions are still pending
				pl.Cfg.Async = true
				c.Obs("histories_with_background_pruning", 1)
			}
			c.Res.Digest = fw.DigestOf(pl.Cfg, pl.Summary(1000))
			if c.Index < 2 {
				c.Res.Sample = pl.Summary(60)
			}
			e, err := v1x.NewEnv(c, pl.Cfg)
			if err != nil {
				c.Violate(0, "exec|open|error", "%v", err)
				return
			}
			defer e.Close()
			saves, special := 0, 0
			for _, op := range pl.Ops {
				var before *seam.MemStore
				// (a rejected re-commit and a rejected deletion must leave the store unchanged; for a
				// rejected load the property only asks that the tree stays usable)
				if op.Kind == "save" || op.Kind == "delto" {
					before, _ = seam.Dump(e.W.Inner)
				}
				baseOld := e.M.Base != e.M.Latest
				firstBefore := e.M.First
				out := e.Apply(op, true)
				if e.Dead {
					break
				}
				if e.Cfg.Async && op.Kind == "delto" && out.Err == nil && !out.Expect.Noop {
					// the versions just taken out of the range (their deletions are still pending in
					// the batch, their roots still in the store) must not load on this handle
					at := e.T.Version()
					for v := firstBefore; v <= op.N && v < firstBefore+6; v++ {
						if v <= 0 {
							continue
						}
						if _, err := e.T.LoadVersion(v); err == nil {
							e.Bad("book|async-window|loadversion", "LoadVersion(%d) succeeded on the handle whose background pruning has removed versions up to %d from the range (AvailableVersions()=%v)", v, op.N, e.T.AvailableVersions())
							e.Dead = true
							break
						} else if e.T.Version() != at {
							e.Bad("book|async-window|moved", "the rejected LoadVersion(%d) moved the tree from version %d to %d", v, at, e.T.Version())
						}
						c.Obs("loads_of_versions_pruned_in_the_background_rejected", 1)
					}
					if e.Dead {
						break
					}
					e.CheckReads(e.T, e.M.Work, "work-after-async-window-loads", v1x.Probes(pl.Universe, e.M.Work))
				}
				if out.Expect.Fail && before != nil {
					// a rejected request must leave the store unchanged
					after, _ := seam.Dump(e.W.Inner)
					if !before.Equal(after) {
						e.Bad("book|rejected|store-changed", "%s was rejected (%v) but changed the raw store", op, out.Err)
					}
					c.Obs("rejected_requests", 1)
				}
				if op.Kind == "save" && out.Err == nil {
					saves++
					if out.Expect.Existing {
						special++
						c.Obs("recommit_identical", 1)
						after, _ := seam.Dump(e.W.Inner)
						if !before.Equal(after) {
							e.Bad("book|recommit|store-changed", "idempotent re-commit of version %d changed the raw store", out.Version)
						}
					}
				}
				if op.Kind == "save" && out.Expect.Fail {
					special++
					c.Obs("recommit_different_rejected", 1)
				}
				if op.Kind == "delto" || op.Kind == "lfo" || op.Kind == "delfrom" || (op.Kind == "load" && baseOld) {
					special++
				}
				var pk []byte
				if len(pl.Universe) > 0 {
					pk = pl.Universe[0]
				}
				checkBookkeeping(e, e.T, "live", pk, false)
				// the same after a reopen (fresh handle, fresh caches); with background pruning only
				// once the processed deletions have been flushed by a commit
				h := e.OpenHandle(e.Cfg)
				if e.AsyncPending {
					c.Obs("reopen_checks_skipped_while_background_deletions_are_pending", 1)
				} else if _, err := h.Load(); err != nil {
					e.Bad("book|reopen|load-error", "Load() on a fresh handle: %v", err)
				} else {
					checkBookkeeping(e, h, "reopened", pk, true)
				}
				// a NEW handle that never loaded anything commits on the same store: its version number
				// (1, or the configured initial version) exists already with other contents, so the commit
				// must fail and leave the store unchanged
				if e.Step%9 == 4 && e.M.Latest > 0 && !e.M.Dirty && !e.AsyncPending {
					start := int64(1)
					if e.M.Initial > 0 {
						start = e.M.Initial
					}
					if e.M.Exists(start) {
						pre, _ := seam.Dump(e.W.Inner)
						cfgH := e.Cfg
						cfgH.Initial = e.M.Initial
						h := e.OpenHandle(cfgH)
						h.Set([]byte("cold-handle-key"), []byte(fmt.Sprintf("cold-%d", e.Step)))
						_, hv, herr := h.SaveVersion()
						post, _ := seam.Dump(e.W.Inner)
						if herr == nil {
							e.Bad("book|cold-handle|overwrote", "a handle that never loaded committed version %d although that version exists with different contents (SaveVersion returned no error)", hv)
						} else if !pre.Equal(post) {
							e.Bad("book|cold-handle|store-changed", "the rejected commit of version %d through a handle that never loaded changed the raw store", hv)
						}
						c.Obs("cold_handle_commits_rejected", 1)
					}
				}
				if out.Expect.Fail && out.Err != nil {
					// "... fails and leaves the tree usable": after a rejected load / re-commit / deletion the
					// working tree (incl. its uncommitted writes) still answers every read as before, and
					// goes on to commit them (the following steps of the history)
					e.CheckReads(e.T, e.M.Work, "work-after-rejected", v1x.Probes(pl.Universe, e.M.Work))
					c.Obs("usable_after_rejected_checks", 1)
				}
				c.State(e.AbstractState() + fmt.Sprint(e.M.First > 1))
				if len(c.Res.Violations) > 0 {
					break
				}
			}
			c.Obs("steps", e.Step)
			c.Res.Nontrivial = saves >= 3 && special >= 1
		},
		Floor: func(obs map[string]int, evals, nontrivial int) string {
			if obs["version_queries"] < 10000 || obs["recommit_identical"] < 5 || obs["recommit_different_rejected"] < 5 || obs["rejected_requests"] < 20 || obs["usable_after_rejected_checks"] < 20 || obs["cold_handle_commits_rejected"] < 20 || obs["loads_of_versions_pruned_in_the_background_rejected"] < 20 || obs["commits_after_an_explicit_initial_version_0"] < 20 {
				return fmt.Sprintf("too few observations: %v", obs)
			}
			return ""
		},
	})
}
