package checks

import (
	"bytes"
	"fmt"
	"math/rand"
	"os"
	"sort"
	"strings"
	"sync"
	"time"

	corestore "cosmossdk.io/core/store"
	dbm "github.com/cosmos/iavl/db"

	"verif/internal/fw"
)

// kvModel is the sorted-map model of one ordered KV store.
type kvModel map[string][]byte

func (m kvModel) rangeKeys(start, end []byte, rev bool) []string {
	var ks []string
	for k := range m {
		kb := []byte(k)
		if start != nil && bytes.Compare(kb, start) < 0 {
			continue
		}
		if end != nil && bytes.Compare(kb, end) >= 0 {
			continue
		}
		ks = append(ks, k)
	}
	sort.Strings(ks)
	if rev {
		for i, j := 0, len(ks)-1; i < j; i, j = i+1, j-1 {
			ks[i], ks[j] = ks[j], ks[i]
		}
	}
	return ks
}

type c18backend struct {
	name    string
	db      corestore.KVStoreWithBatch
	parent  corestore.KVStoreWithBatch // for prefixed views: the outermost parent
	prefix  []byte                     // full prefix in the parent
	cleanup func()
}

var c18alphabet = []byte{0x00, 0x01, 0x61, 0xfe, 0xff}

func c18key(rng *rand.Rand) []byte {
	n := 1 + rng.Intn(4)
	k := make([]byte, n)
	for i := range k {
		k[i] = c18alphabet[rng.Intn(len(c18alphabet))]
	}
	return k
}

func c18prefixes() [][]byte {
	return [][]byte{{0xff}, {0xff, 0xff}, {0x01, 0xff}, {0x61}, {0x00}, {0x61, 0x00, 0xff}, {0xfe, 0xff, 0xff}}
}

// sentinels are parent keys just below, at and just above a prefix range.
func sentinels(prefix []byte) [][]byte {
	var out [][]byte
	add := func(k []byte) {
		if len(k) > 0 {
			out = append(out, k)
		}
	}
	add(append([]byte(nil), prefix...)) // the bare prefix (empty key inside the view: never visible)
	below := append([]byte(nil), prefix...)
	for i := len(below) - 1; i >= 0; i-- {
		if below[i] > 0 {
			below[i]--
			add(append(below[:i+1:i+1], 0xff, 0xff))
			break
		}
	}
	if len(prefix) > 1 {
		add(append([]byte(nil), prefix[:len(prefix)-1]...))
	}
	above := append([]byte(nil), prefix...)
	for i := len(above) - 1; i >= 0; i-- {
		if above[i] < 0xff {
			above[i]++
			add(append([]byte(nil), above[:i+1]...))
			add(append(append([]byte(nil), above[:i+1]...), 0x00))
			add(append(append([]byte(nil), above[:i+1]...), 0x10))
			break
		}
	}
	// carry case: prefix ends in 0xff but is not all 0xff
	if prefix[len(prefix)-1] == 0xff {
		p := append([]byte(nil), prefix...)
		for i := len(p) - 1; i >= 0; i-- {
			if p[i] < 0xff {
				p[i]++
				add(append(append([]byte(nil), p[:i+1]...), 0x10))
				break
			}
		}
	}
	add([]byte{0xff, 0xff, 0xff, 0xff, 0xff})
	return out
}

func makeBackends(rng *rand.Rand, tmp string) ([]*c18backend, error) {
	var bs []*c18backend
	mkLevel := func() (corestore.KVStoreWithBatch, func(), error) {
		dir, err := os.MkdirTemp(tmp, "c18ldb")
		if err != nil {
			return nil, nil, err
		}
		d, err := dbm.NewGoLevelDB("t", dir)
		if err != nil {
			return nil, nil, err
		}
		return d, func() { d.Close(); os.RemoveAll(dir) }, nil
	}
	bs = append(bs, &c18backend{name: "MemDB", db: dbm.NewMemDB()})
	ld, cl, err := mkLevel()
	if err != nil {
		return nil, err
	}
	bs = append(bs, &c18backend{name: "GoLevelDB", db: ld, cleanup: cl})
	pfx := c18prefixes()
	p1 := pfx[rng.Intn(len(pfx))]
	// the prefix slice deliberately has spare capacity (a prefix cut out of a larger buffer)
	buf := append(make([]byte, 0, 64), p1...)
	mp := dbm.NewMemDB()
	bs = append(bs, &c18backend{name: "PrefixDB(MemDB)", db: dbm.NewPrefixDB(mp, buf[:len(p1)]), parent: mp, prefix: p1})
	ld2, cl2, err := mkLevel()
	if err != nil {
		return nil, err
	}
	p2 := pfx[rng.Intn(len(pfx))]
	bs = append(bs, &c18backend{name: "PrefixDB(GoLevelDB)", db: dbm.NewPrefixDB(ld2, append([]byte(nil), p2...)), parent: ld2, prefix: p2, cleanup: cl2})
	mp3 := dbm.NewMemDB()
	p3a, p3b := pfx[rng.Intn(len(pfx))], pfx[rng.Intn(len(pfx))]
	bs = append(bs, &c18backend{name: "PrefixDB(PrefixDB(MemDB))", db: dbm.NewPrefixDB(dbm.NewPrefixDB(mp3, append([]byte(nil), p3a...)), append(make([]byte, 0, 16), p3b...)), parent: mp3, prefix: append(append([]byte(nil), p3a...), p3b...)})
	return bs, nil
}

func hexs(b []byte) string {
	if b == nil {
		return "nil"
	}
	return fmt.Sprintf("%x", b)
}

// runC18Program executes one random program on all backends and the model.
func runC18Program(c *fw.Ctx, rng *rand.Rand, nops int) {
	bs, err := makeBackends(rng, c.TmpDir)
	if err != nil {
		c.Res.Inconcl = err.Error()
		return
	}
	defer func() {
		for _, b := range bs {
			if b.cleanup != nil {
				b.cleanup()
			}
		}
	}()
	// plant sentinels in the parents of prefixed views
	sent := map[*c18backend]map[string]string{}
	for _, b := range bs {
		if b.parent == nil {
			continue
		}
		sent[b] = map[string]string{}
		for _, s := range sentinels(b.prefix) {
			if bytes.HasPrefix(s, b.prefix) && len(s) > len(b.prefix) {
				continue // would be inside the view
			}
			if err := b.parent.Set(s, []byte("sentinel")); err == nil {
				sent[b][string(s)] = "sentinel"
			}
		}
	}
	m := kvModel{}
	var log []string
	bad := func(b *c18backend, sig, f string, a ...any) {
		tail := log
		if len(tail) > 30 {
			tail = tail[len(tail)-30:]
		}
		c.Violate(len(log), "kv|"+b.name+"|"+sig, "%s [backend %s prefix=%x] program: %s", fmt.Sprintf(f, a...), b.name, b.prefix, strings.Join(tail, "; "))
	}
	bounds := func() []byte {
		switch rng.Intn(8) {
		case 0:
			return nil
		default:
			if len(m) > 0 && rng.Intn(2) == 0 {
				ks := m.rangeKeys(nil, nil, false)
				k := []byte(ks[rng.Intn(len(ks))])
				switch rng.Intn(3) {
				case 0:
					return k
				case 1:
					return append(append([]byte(nil), k...), 0)
				default:
					if len(k) > 1 {
						return k[:len(k)-1]
					}
					return k
				}
			}
			return c18key(rng)
		}
	}
	type pendingBatch struct {
		ops  []func(kvModel)
		bats []corestore.Batch
		done bool
	}
	var batch *pendingBatch
	for i := 0; i < nops && len(c.Res.Violations) == 0; i++ {
		switch op := rng.Intn(12); {
		case op < 2: // Set
			k, v := c18key(rng), []byte(fmt.Sprintf("v%d", i))
			if rng.Intn(10) == 0 {
				v = []byte{}
			}
			log = append(log, fmt.Sprintf("Set(%x,%q)", k, v))
			for _, b := range bs {
				if err := b.db.Set(k, v); err != nil {
					bad(b, "set-error", "Set(%x): %v", k, err)
				}
			}
			m[string(k)] = v
		case op == 2: // Delete
			k := c18key(rng)
			if len(m) > 0 && rng.Intn(2) == 0 {
				ks := m.rangeKeys(nil, nil, false)
				k = []byte(ks[rng.Intn(len(ks))])
			}
			log = append(log, fmt.Sprintf("Delete(%x)", k))
			for _, b := range bs {
				if err := b.db.Delete(k); err != nil {
					bad(b, "delete-error", "Delete(%x): %v", k, err)
				}
			}
			delete(m, string(k))
		case op == 3: // rejected writes
			log = append(log, "Set(empty key) / Set(k,nil)")
			k := c18key(rng)
			for _, b := range bs {
				if err := b.db.Set([]byte{}, []byte("x")); err == nil {
					bad(b, "empty-key-stored", "Set with an empty key returned no error")
				}
				if err := b.db.Set(nil, []byte("x")); err == nil {
					bad(b, "empty-key-stored", "Set with a nil key returned no error")
				}
				if err := b.db.Set(k, nil); err == nil {
					bad(b, "nil-value-stored", "Set(%x,nil) returned no error", k)
				}
				if _, err := b.db.Get([]byte{}); err == nil {
					bad(b, "empty-key-read", "Get with an empty key returned no error")
				}
				if has, err := b.db.Has([]byte{}); err == nil && has {
					bad(b, "empty-key-read", "Has(empty) is true")
				}
				bt := b.db.NewBatch()
				if err := bt.Set([]byte{}, []byte("x")); err == nil {
					bad(b, "empty-key-stored", "batch Set with an empty key returned no error")
				}
				if err := bt.Set(k, nil); err == nil {
					bad(b, "nil-value-stored", "batch Set(%x,nil) returned no error", k)
				}
				if err := bt.Delete(nil); err == nil {
					bad(b, "empty-key-stored", "batch Delete with an empty key returned no error")
				}
				bt.Close()
				if _, err := b.db.Iterator([]byte{}, nil); err == nil {
					bad(b, "empty-bound-accepted", "Iterator with an empty non-nil start returned no error")
				}
				if _, err := b.db.ReverseIterator(nil, []byte{}); err == nil {
					bad(b, "empty-bound-accepted", "ReverseIterator with an empty non-nil end returned no error")
				}
			}
		case op < 6: // point reads
			k := c18key(rng)
			if len(m) > 0 && rng.Intn(2) == 0 {
				ks := m.rangeKeys(nil, nil, false)
				k = []byte(ks[rng.Intn(len(ks))])
			}
			want, present := m[string(k)]
			log = append(log, fmt.Sprintf("Get/Has(%x)", k))
			for _, b := range bs {
				got, err := b.db.Get(k)
				if err != nil || (got != nil) != present || !bytes.Equal(got, want) {
					bad(b, "get", "Get(%x)=(%x,%v), model says %x (present=%v)", k, got, err, want, present)
				}
				has, err := b.db.Has(k)
				if err != nil || has != present {
					bad(b, "has", "Has(%x)=(%v,%v), model says %v", k, has, err, present)
				}
			}
			c.Obs("point_reads", len(bs))
		case op < 9: // iterators
			s, e := bounds(), bounds()
			rev := rng.Intn(2) == 0
			want := m.rangeKeys(s, e, rev)
			log = append(log, fmt.Sprintf("Iterator(%s,%s,rev=%v)", hexs(s), hexs(e), rev))
			for _, b := range bs {
				var it corestore.Iterator
				var err error
				// the in-memory backend also offers lock-free variants of its iterators (for callers
				// that hold the lock already); used here from the single program goroutine in every
				// third iterator step
				mem, isMem := b.db.(*dbm.MemDB)
				noMtx := isMem && rng.Intn(3) == 0
				switch {
				case noMtx && rev:
					it, err = mem.ReverseIteratorNoMtx(s, e)
					c.Obs("memdb_lock_free_iterators", 1)
				case noMtx:
					it, err = mem.IteratorNoMtx(s, e)
					c.Obs("memdb_lock_free_iterators", 1)
				case rev:
					it, err = b.db.ReverseIterator(s, e)
				default:
					it, err = b.db.Iterator(s, e)
				}
				if err != nil {
					bad(b, "iterator-error", "iterator [%s,%s) rev=%v: %v", hexs(s), hexs(e), rev, err)
					continue
				}
				var got []string
				valsOK := true
				for n := 0; it.Valid(); it.Next() {
					k := it.Key()
					got = append(got, string(k))
					if v, ok := m[string(k)]; !ok || !bytes.Equal(v, it.Value()) {
						valsOK = false
					}
					if n++; n > 10000 {
						break
					}
				}
				ierr := it.Error()
				it.Close()
				if fmt.Sprintf("%x", got) != fmt.Sprintf("%x", want) || !valsOK || ierr != nil {
					cls := "iterator"
					if len(got) > len(want) {
						cls = "iterator-extra-keys"
					} else if len(got) < len(want) {
						cls = "iterator-missing-keys"
					}
					bad(b, cls, "iterator [%s,%s) rev=%v yields %x (values ok=%v, err=%v), model says %x", hexs(s), hexs(e), rev, got, valsOK, ierr, want)
				}
			}
			c.Obs("iterations", len(bs))
			if s != nil && e != nil && bytes.Compare(s, e) >= 0 {
				c.Obs("iterations_inverted_or_equal", 1)
			}
		default: // batch life cycle
			if batch == nil {
				batch = &pendingBatch{}
				for _, b := range bs {
					batch.bats = append(batch.bats, b.db.NewBatch())
				}
				log = append(log, "NewBatch")
			}
			switch rng.Intn(4) {
			case 0, 1:
				k, v := c18key(rng), []byte(fmt.Sprintf("b%d", i))
				del := rng.Intn(3) == 0
				log = append(log, fmt.Sprintf("batch.%s(%x)", map[bool]string{true: "Delete", false: "Set"}[del], k))
				for bi, bt := range batch.bats {
					var err error
					if del {
						err = bt.Delete(k)
					} else {
						err = bt.Set(k, v)
					}
					if err != nil {
						bad(bs[bi], "batch-op-error", "batch op on an open batch: %v", err)
					}
				}
				if del {
					batch.ops = append(batch.ops, func(m kvModel) { delete(m, string(k)) })
				} else {
					batch.ops = append(batch.ops, func(m kvModel) { m[string(k)] = v })
				}
				// not visible before Write
				for _, b := range bs {
					got, _ := b.db.Get(k)
					if want, ok := m[string(k)]; (got != nil) != ok || !bytes.Equal(got, want) {
						bad(b, "batch-visible-before-write", "an unwritten batch operation on %x is visible: Get=%x", k, got)
					}
				}
			case 2: // write, then the batch must be unusable
				sync := rng.Intn(2) == 0
				log = append(log, fmt.Sprintf("batch.Write(sync=%v)", sync))
				for bi, bt := range batch.bats {
					var err error
					if sync {
						err = bt.WriteSync()
					} else {
						err = bt.Write()
					}
					if err != nil {
						bad(bs[bi], "batch-write-error", "%v", err)
					}
				}
				for _, f := range batch.ops {
					f(m)
				}
				k := c18key(rng)
				for bi, bt := range batch.bats {
					if err := bt.Set(k, []byte("late")); err == nil {
						bad(bs[bi], "batch-reuse-after-write", "Set on a written batch returned no error")
					}
					if err := bt.Delete(k); err == nil {
						bad(bs[bi], "batch-reuse-after-write", "Delete on a written batch returned no error")
					}
					if err := bt.Write(); err == nil {
						bad(bs[bi], "batch-reuse-after-write", "second Write on a written batch returned no error")
					}
					bt.Close()
					bt.Close()
				}
				c.Obs("batches_written", 1)
				batch = nil
			case 3: // close without write: nothing applied
				log = append(log, "batch.Close")
				for _, bt := range batch.bats {
					bt.Close()
				}
				// (reuse after an unwritten Close is not part of the statement and is not probed)
				c.Obs("batches_closed_unwritten", 1)
				batch = nil
			}
		}
	}
	// whole-store comparison and isolation of prefixed views
	want := m.rangeKeys(nil, nil, false)
	for _, b := range bs {
		it, err := b.db.Iterator(nil, nil)
		if err != nil {
			bad(b, "iterator-error", "%v", err)
			continue
		}
		var got []string
		for ; it.Valid(); it.Next() {
			got = append(got, string(it.Key()))
		}
		it.Close()
		if fmt.Sprintf("%x", got) != fmt.Sprintf("%x", want) {
			bad(b, "final-contents", "final contents %x, model says %x", got, want)
		}
		if b.parent != nil {
			pit, err := b.parent.Iterator(nil, nil)
			if err != nil {
				continue
			}
			seen := map[string]bool{}
			for ; pit.Valid(); pit.Next() {
				k := string(pit.Key())
				seen[k] = true
				if _, isSent := sent[b][k]; isSent {
					if string(pit.Value()) != "sentinel" {
						bad(b, "prefix-touched-outside", "parent key %x outside the prefix was modified to %q", k, pit.Value())
					}
					continue
				}
				if !strings.HasPrefix(k, string(b.prefix)) {
					bad(b, "prefix-wrote-outside", "parent holds key %x which is neither a sentinel nor under prefix %x", k, b.prefix)
					continue
				}
				if _, ok := m[k[len(b.prefix):]]; !ok {
					bad(b, "prefix-parent-extra", "parent holds %x under the prefix but the view's model has no such key", k)
				}
			}
			pit.Close()
			for k := range sent[b] {
				if !seen[k] {
					bad(b, "prefix-deleted-outside", "parent sentinel %x outside the prefix disappeared", k)
				}
			}
			for k := range m {
				if !seen[string(b.prefix)+k] {
					bad(b, "prefix-parent-missing", "model key %x is not stored under the prefix in the parent", k)
				}
			}
			c.Obs("prefix_isolation_checks", 1)
		}
	}
	c.Obs("programs", 1)
	c.Obs("program_ops", len(log))
}

// runBatchAtomicity: a reader iterating with a snapshot must never see a half-applied batch.
func runBatchAtomicity(c *fw.Ctx, rng *rand.Rand) {
	bs, err := makeBackends(rng, c.TmpDir)
	if err != nil {
		c.Res.Inconcl = err.Error()
		return
	}
	defer func() {
		for _, b := range bs {
			if b.cleanup != nil {
				b.cleanup()
			}
		}
	}()
	for _, b := range bs {
		b := b
		var wg sync.WaitGroup
		stop := make(chan struct{})
		var torn, rounds int
		wg.Add(1)
		go func() {
			defer wg.Done()
			for {
				select {
				case <-stop:
					return
				default:
				}
				it, err := b.db.Iterator([]byte{0x61}, []byte{0x62})
				if err != nil {
					continue
				}
				var vals []string
				for ; it.Valid(); it.Next() {
					vals = append(vals, string(it.Value()))
				}
				it.Close()
				rounds++
				for i := 1; i < len(vals); i++ {
					if vals[i] != vals[0] {
						torn++
					}
				}
			}
		}()
		for i := 0; i < 300; i++ {
			bt := b.db.NewBatch()
			v := []byte(fmt.Sprintf("gen%d", i))
			for _, k := range [][]byte{{0x61, 0x01}, {0x61, 0x61}, {0x61, 0xff}} {
				bt.Set(k, v)
			}
			if err := bt.Write(); err != nil {
				c.Violate(i, "kv|"+b.name+"|batch-write-error", "%v", err)
			}
			bt.Close()
		}
		close(stop)
		wg.Wait()
		if torn > 0 {
			c.Violate(0, "kv|"+b.name+"|batch-not-atomic", "a concurrent snapshot iterator saw %d half-applied batches in %d rounds on %s", torn, rounds, b.name)
		}
		c.Obs("atomicity_reader_rounds", rounds)
	}
	c.Obs("atomicity_runs", 1)
}

// runOpenIteratorWrites: an iterator over a long range is open (one key read) while a second
// goroutine issues direct point writes (Delete / Set) of keys OUTSIDE the iterated domain - which the
// iterator contract permits. A backend may make the writer wait until the iterator is closed (MemDB)
// or serve the iterator from a snapshot (GoLevelDB); either way the iterator must yield exactly the
// stored keys of its domain, none of which was touched. The writer's progress is not part of the
// verdict (the short pause only gives an admitted writer time to run); afterwards the writes must
// have been applied.
func runOpenIteratorWrites(c *fw.Ctx, rng *rand.Rand) {
	backends, err := makeBackends(rng, c.TmpDir)
	if err != nil {
		c.Res.Inconcl = err.Error()
		return
	}
	defer func() {
		for _, b := range backends {
			if b.cleanup != nil {
				b.cleanup()
			}
		}
	}()
	key := func(i int) []byte { return []byte(fmt.Sprintf("k%04d", i)) }
	for _, b := range backends {
		const n = 1000
		bt := b.db.NewBatch()
		for i := 0; i < n; i++ { // ascending fill: every B-tree leaf holds the minimum number of items
			bt.Set(key(i), []byte("v"))
		}
		if err := bt.Write(); err != nil {
			c.Violate(0, "kv|"+b.name+"|batch-write-error", "%v", err)
			return
		}
		bt.Close()
		lo, hi := 100+rng.Intn(50), 300+rng.Intn(400)
		rev := rng.Intn(2) == 0
		var it corestore.Iterator
		if rev {
			it, err = b.db.ReverseIterator(key(lo), key(hi))
		} else {
			it, err = b.db.Iterator(key(lo), key(hi))
		}
		if err != nil {
			c.Violate(0, "kv|"+b.name+"|iterator-error", "%v", err)
			return
		}
		var got []string
		if it.Valid() {
			got = append(got, string(it.Key()))
			it.Next()
		}
		// point writes outside [lo, hi): deletions at the low end (they make a B-tree rebalance on
		// the path an ascending traversal still has to return through), at the high end, and new keys
		victims := []int{0, 1, 2, 3, 40, 41, n - 1, n - 2, hi + 5}
		done := make(chan error, 1)
		go func() {
			var werr error
			for _, v := range victims {
				if e := b.db.Delete(key(v)); e != nil && werr == nil {
					werr = e
				}
			}
			if e := b.db.Set([]byte("k0000x"), []byte("new")); e != nil && werr == nil {
				werr = e
			}
			done <- werr
		}()
		finished := false
		select {
		case werr := <-done:
			finished = true
			if werr != nil {
				c.Violate(0, "kv|"+b.name+"|open-iterator|write-error", "a point write outside the domain of an open iterator failed: %v", werr)
			}
			c.Obs("open_iterator_writers_admitted_while_the_iterator_was_open", 1)
		case <-time.After(50 * time.Millisecond):
			c.Obs("open_iterator_writers_made_to_wait", 1)
		}
		for ; it.Valid(); it.Next() {
			got = append(got, string(it.Key()))
		}
		ierr := it.Error()
		it.Close()
		if !finished {
			select {
			case werr := <-done:
				if werr != nil {
					c.Violate(0, "kv|"+b.name+"|open-iterator|write-error", "a point write outside the domain of an open iterator failed: %v", werr)
				}
			case <-time.After(60 * time.Second):
				c.Res.Inconcl = "the writer that waited for an open iterator did not finish within 60 s after the iterator was closed (" + b.name + ")"
				return
			}
		}
		var want []string
		for i := lo; i < hi; i++ {
			want = append(want, string(key(i)))
		}
		if rev {
			for i, j := 0, len(want)-1; i < j; i, j = i+1, j-1 {
				want[i], want[j] = want[j], want[i]
			}
		}
		if ierr != nil || len(got) != len(want) {
			c.Violate(0, "kv|"+b.name+"|open-iterator|wrong-keys", "%s: iterator over [%s,%s) reverse=%v, open while point writes outside its domain were issued from a second goroutine, yielded %d keys (Error()=%v), want %d (none of them was written to)", b.name, key(lo), key(hi), rev, len(got), ierr, len(want))
		} else {
			for i := range want {
				if got[i] != want[i] {
					c.Violate(0, "kv|"+b.name+"|open-iterator|wrong-keys", "%s: iterator over [%s,%s) reverse=%v, open while point writes outside its domain were issued from a second goroutine: key #%d is %s, want %s", b.name, key(lo), key(hi), rev, i, got[i], want[i])
					break
				}
			}
		}
		// the writes took effect
		for _, v := range victims {
			if has, _ := b.db.Has(key(v)); has {
				c.Violate(0, "kv|"+b.name+"|open-iterator|write-lost", "%s: Delete(%s) issued while an iterator was open has no effect afterwards", b.name, key(v))
				break
			}
		}
		if v, _ := b.db.Get([]byte("k0000x")); string(v) != "new" {
			c.Violate(0, "kv|"+b.name+"|open-iterator|write-lost", "%s: Set issued while an iterator was open has no effect afterwards", b.name)
		}
		c.Obs("open_iterator_write_probes", 1)
		if len(c.Res.Violations) > 0 {
			return
		}
	}
}

func init() {
	fw.Register(&fw.Check{
		ID:    "C18",
		Level: "exploration",
		Cases: func(tier string) int { return tierN(tier, 480, 16000) },
		Rule: "case = 6 (quick) / 10 (thorough) random programs of 40-120 operations each: Get / Has / Set / Delete / rejected writes (empty or nil key, nil value, empty non-nil iterator bounds) / Iterator and ReverseIterator over bounds equal to, between and outside stored keys, nil, inverted / batch life cycle (Set, Delete, invisibility before Write, Write or WriteSync, reuse after write, close without write) over keys of length 1-4 from the alphabet {00,01,61,FE,FF}; every program runs on MemDB, GoLevelDB, PrefixDB(MemDB), PrefixDB(GoLevelDB) and PrefixDB(PrefixDB(MemDB)) with prefixes from {FF, FFFF, 01FF, 61, 00, 6100FF, FEFFFF} (prefix slices with spare capacity) while the parent store also holds sentinel keys just below, at and just above the prefix range (incl. the carry case of prefixes ending in FF). " +
			"Oracle: a sorted-map model - every point read, every iteration (exact keys, order, values) and the final contents must agree on every backend; parent stores of prefixed views must hold exactly prefix+model keys plus the untouched sentinels. 1 case in 16 additionally runs a concurrent snapshot-iterator reader against 300 three-key batch writes per backend (a half-applied batch is a violation); another case in 17 fills every backend with 1000 keys, opens a forward or reverse iterator over a range of 150-600 keys, reads one key and lets a second goroutine issue point Deletes and a Set of keys OUTSIDE that range (the backend may make the writer wait or serve a snapshot): the iterator must yield exactly the keys of its range, and the writes must have taken effect afterwards. " +
			"distinct = case index (programs are PRNG-determined); non-trivial = the program contained >=1 written batch, >=1 iterator with a non-nil bound and >=1 delete.",
		Assumptions: []string{"sorted-map model; Key()/Next() are not called on invalid iterators; Has(empty key) may return false or an error"},
		Run: func(c *fw.Ctx) {
			n := 6
			if c.Tier == "thorough" {
				n = 10
			}
			for i := 0; i < n && len(c.Res.Violations) == 0; i++ {
				runC18Program(c, c.Rng, 40+c.Rng.Intn(80))
			}
			if c.Index%17 == 5 && len(c.Res.Violations) == 0 {
				runBatchAtomicity(c, c.Rng)
			}
			if c.Index%17 == 11 && len(c.Res.Violations) == 0 {
				runOpenIteratorWrites(c, c.Rng)
			}
			c.Res.Digest = fw.DigestOf("c18", c.Index)
			c.Res.Nontrivial = c.Res.Obs["batches_written"] > 0 && c.Res.Obs["iterations"] > 0
		},
		Floor: func(obs map[string]int, evals, nontrivial int) string {
			if obs["programs"] < 1000 || obs["iterations"] < 10000 || obs["batches_written"] < 500 || obs["prefix_isolation_checks"] < 1000 || obs["atomicity_runs"] < 5 || obs["open_iterator_write_probes"] < 20 || obs["iterations_inverted_or_equal"] < 100 {
				return fmt.Sprintf("too few observations: %v", obs)
			}
			return ""
		},
	})
}
