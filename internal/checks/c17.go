package checks

import (
	"bytes"
	"errors"
	"fmt"
	"runtime/debug"
	"strings"
	"time"

	"github.com/cosmos/iavl"

	"verif/internal/fw"
	"verif/internal/model"
	"verif/internal/seam"
	"verif/internal/v1x"
)

// fop is one public operation that is run under fault injection.
type fop struct {
	name  string
	write bool // the operation writes to storage (commit / deletion / rollback / import)
	// run executes the operation and renders its observable result.
	run func(t *iavl.MutableTree) (string, error)
	// pending are uncommitted writes applied (fault-free) before the operation
	pending []v1x.Op
	// states before / after (write ops)
	old, new *vstate
	kind     string // for classify(): save delto lfo import
	fresh    bool   // run on a fresh empty store (import)
}

func renderPairs(k, v [][]byte) string {
	var b strings.Builder
	for i := range k {
		fmt.Fprintf(&b, "%q=%q;", k[i], v[i])
	}
	return b.String()
}

// readOps builds the read-only operations probed at the current state of e.
func readOps(e *v1x.Env, universe [][]byte, c *fw.Ctx) []fop {
	var ops []fop
	if e.M.Latest == 0 {
		return nil
	}
	rng := c.Rng
	vs := e.M.Versions()
	// versions whose root entry is a reference to the root of an earlier version (commits without
	// writes) are read through one more storage read; they are picked half of the time when present
	var refVs []int64
	for _, v := range vs {
		if r := e.R.Roots[v]; r != nil && r.Version != v {
			refVs = append(refVs, v)
		}
	}
	pickV := func() int64 {
		if len(refVs) > 0 && rng.Intn(2) == 0 {
			c.Obs("reads_of_versions_with_reference_roots", 1)
			return refVs[rng.Intn(len(refVs))]
		}
		return vs[rng.Intn(len(vs))]
	}
	probes := v1x.Probes(universe, e.M.Vers[e.M.Latest])
	pickK := func() []byte { return probes[rng.Intn(len(probes))] }
	add := func(name string, run func(t *iavl.MutableTree) (string, error)) {
		ops = append(ops, fop{name: name, run: run})
	}
	for i := 0; i < 2; i++ {
		k, v := pickK(), pickV()
		add("Get", func(t *iavl.MutableTree) (string, error) {
			x, err := t.Get(k)
			return fmt.Sprintf("%q/%v", x, x == nil), err
		})
		add("Has", func(t *iavl.MutableTree) (string, error) { x, err := t.Has(k); return fmt.Sprint(x), err })
		add("GetWithIndex", func(t *iavl.MutableTree) (string, error) {
			i, x, err := t.GetWithIndex(k)
			return fmt.Sprintf("%d/%q/%v", i, x, x == nil), err
		})
		idx := int64(rng.Intn(len(e.M.Vers[e.M.Latest]) + 1))
		add("GetByIndex", func(t *iavl.MutableTree) (string, error) {
			a, b, err := t.GetByIndex(idx)
			return fmt.Sprintf("%q/%q", a, b), err
		})
		add("GetVersioned", func(t *iavl.MutableTree) (string, error) {
			x, err := t.GetVersioned(k, v)
			return fmt.Sprintf("%q/%v", x, x == nil), err
		})
		add("GetImmutable.Get", func(t *iavl.MutableTree) (string, error) {
			it, err := t.GetImmutable(v)
			if err != nil {
				return "", err
			}
			x, err := it.Get(k)
			return fmt.Sprintf("%q/%v", x, x == nil), err
		})
		add("GetImmutable.GetWithIndex", func(t *iavl.MutableTree) (string, error) {
			it, err := t.GetImmutable(v)
			if err != nil {
				return "", err
			}
			i, x, err := it.GetWithIndex(k)
			return fmt.Sprintf("%d/%q/%v", i, x, x == nil), err
		})
		if len(e.M.Vers[v]) > 0 {
			add("GetProof", func(t *iavl.MutableTree) (string, error) {
				it, err := t.GetImmutable(v)
				if err != nil {
					return "", err
				}
				p, err := it.GetProof(k)
				if err != nil {
					return "", err
				}
				return p.String(), nil
			})
			add("GetVersionedProof", func(t *iavl.MutableTree) (string, error) {
				p, err := t.GetVersionedProof(k, v)
				if err != nil {
					return "", err
				}
				return p.String(), nil
			})
		}
	}
	v := pickV()
	add("MutableTree.Iterate", func(t *iavl.MutableTree) (string, error) {
		var ks, vsl [][]byte
		_, err := t.Iterate(func(k, v []byte) bool {
			ks = append(ks, append([]byte(nil), k...))
			vsl = append(vsl, append([]byte(nil), v...))
			return false
		})
		return renderPairs(ks, vsl), err
	})
	add("ImmutableTree.Iterate", func(t *iavl.MutableTree) (string, error) {
		it, err := t.GetImmutable(v)
		if err != nil {
			return "", err
		}
		var ks, vsl [][]byte
		_, err = it.Iterate(func(k, v []byte) bool {
			ks = append(ks, append([]byte(nil), k...))
			vsl = append(vsl, append([]byte(nil), v...))
			return false
		})
		return renderPairs(ks, vsl), err
	})
	for _, asc := range []bool{true, false} {
		asc := asc
		add("MutableTree.Iterator", func(t *iavl.MutableTree) (string, error) {
			itr, err := t.Iterator(nil, nil, asc)
			if err != nil {
				return "", err
			}
			var ks, vsl [][]byte
			for ; itr.Valid(); itr.Next() {
				ks = append(ks, append([]byte(nil), itr.Key()...))
				vsl = append(vsl, append([]byte(nil), itr.Value()...))
			}
			err = itr.Error()
			if cerr := itr.Close(); err == nil {
				err = cerr
			}
			return renderPairs(ks, vsl), err
		})
		add("ImmutableTree.Iterator", func(t *iavl.MutableTree) (string, error) {
			it, err := t.GetImmutable(v)
			if err != nil {
				return "", err
			}
			itr, err := it.Iterator(nil, nil, asc)
			if err != nil {
				return "", err
			}
			var ks, vsl [][]byte
			for ; itr.Valid(); itr.Next() {
				ks = append(ks, append([]byte(nil), itr.Key()...))
				vsl = append(vsl, append([]byte(nil), itr.Value()...))
			}
			err = itr.Error()
			if cerr := itr.Close(); err == nil {
				err = cerr
			}
			return renderPairs(ks, vsl), err
		})
	}
	add("Export", func(t *iavl.MutableTree) (string, error) {
		it, err := t.GetImmutable(v)
		if err != nil {
			return "", err
		}
		nodes, err := exportStream(it, false)
		return streamStr(nodes) + fmt.Sprint(len(nodes)), err
	})
	// the traversal starts at a random retained version: the version before the start is read in a
	// different way (its absence is legal) than the versions inside the range
	tscStart := int64(0)
	if rng.Intn(3) != 0 {
		tscStart = pickV() + 1
	}
	add("TraverseStateChanges", func(t *iavl.MutableTree) (string, error) {
		var b strings.Builder
		err := t.TraverseStateChanges(tscStart, e.M.Latest+1, func(ver int64, cs *iavl.ChangeSet) error {
			fmt.Fprintf(&b, "v%d:%s|", ver, csStr(csFromIavl(cs)))
			return nil
		})
		return b.String(), err
	})
	add("LoadVersion", func(t *iavl.MutableTree) (string, error) {
		h := iavl.NewMutableTree(storeOf(t), 0, false, iavl.NewNopLogger())
		lv, err := h.LoadVersion(v)
		if err != nil {
			return "", err
		}
		var ks, vsl [][]byte
		_, err = h.Iterate(func(k, v []byte) bool {
			ks = append(ks, append([]byte(nil), k...))
			vsl = append(vsl, append([]byte(nil), v...))
			return false
		})
		// the version range the fresh handle discovered is part of the result
		return fmt.Sprint(lv, h.AvailableVersions(), h.VersionExists(e.M.First), h.VersionExists(e.M.Latest)) + renderPairs(ks, vsl), err
	})
	add("GetLatestVersion", func(t *iavl.MutableTree) (string, error) {
		h := iavl.NewMutableTree(storeOf(t), 0, true, iavl.NewNopLogger())
		lv, err := h.GetLatestVersion()
		return fmt.Sprint(lv), err
	})
	return ops
}

// storeOf lets an operation open a second handle on the same (faulting) store.
var currentStore *seam.Wrap

func storeOf(*iavl.MutableTree) *seam.Wrap { return currentStore }

type faultRun struct {
	res   string
	err   error
	panic string
	hang  string // the operation never returned: stack of the blocked caller (deadlock decided from the goroutine dump)
	slow  string // the operation did not return within the bound and no deadlock could be shown (inconclusive)
	fired []seam.Fired
	store *seam.MemStore
	tree  *iavl.MutableTree // the handle the operation ran on (faults disarmed afterwards)
}

// runFaulted executes op on a fresh handle over a clone of base with call number n failing.
func runFaulted(base *seam.MemStore, cfg v1x.Config, op *fop, n int, mask int, prob float64, seed int64, initial int64) (fr faultRun, calls int) {
	st := base.Clone()
	if op.fresh {
		st = seam.NewMemStore()
	}
	w := seam.NewWrap(st)
	currentStore = w
	c2 := cfg
	c2.Initial = initial
	t := iavl.NewMutableTree(w, cfg.Cache, !cfg.Fast, iavl.NewNopLogger(), v1x.Options(c2)...)
	if !op.fresh {
		if _, err := t.Load(); err != nil {
			fr.err = fmt.Errorf("setup Load: %w", err)
			return fr, 0
		}
	}
	for _, p := range op.pending {
		if p.Kind == "set" {
			_, _ = t.Set(p.K, p.V)
		} else {
			_, _, _ = t.Remove(p.K)
		}
	}
	if prob > 0 {
		w.ArmRandom(prob, mask, seed)
	} else {
		w.ArmFault(n, mask)
	}
	func() {
		defer func() {
			if r := recover(); r != nil {
				fr.panic = fmt.Sprintf("%v\n%s", r, firstIavlFrames(string(debug.Stack())))
				if site := fw.PanicSite(string(debug.Stack())); site != "" {
					fr.panic = site + ": " + fr.panic
				}
			}
		}()
		// (an operation that never returns after the fault is decided from the goroutine dump)
		done, deadlocked, ev := fw.Bounded(60*time.Second, "github.com/cosmos/iavl", func() {
			defer func() {
				if r := recover(); r != nil {
					fr.panic = fmt.Sprintf("%v\n%s", r, firstIavlFrames(string(debug.Stack())))
					if site := fw.PanicSite(string(debug.Stack())); site != "" {
						fr.panic = site + ": " + fr.panic
					}
				}
			}()
			fr.res, fr.err = op.run(t)
		})
		if !done {
			if deadlocked {
				fr.hang = ev
			} else {
				fr.slow = ev
			}
		}
	}()
	calls = w.Seq()
	fr.fired = w.Disarm()
	fr.store = st
	fr.tree = t
	return fr, calls
}

func kindsOf(f []seam.Fired) string {
	set := map[string]bool{}
	for _, x := range f {
		set[seam.KindName(x.Kind)] = true
	}
	var l []string
	for k := range set {
		l = append(l, k)
	}
	if len(l) > 1 {
		return "multi"
	}
	if len(l) == 0 {
		return "none"
	}
	return l[0]
}

func anyWriteFault(f []seam.Fired) bool {
	for _, x := range f {
		if x.Kind&seam.KAllWrites != 0 {
			return true
		}
	}
	return false
}

// probe runs one operation under every single fault (and a few random multi-fault runs).
func probeOp(c *fw.Ctx, base *seam.MemStore, cfg v1x.Config, op *fop, universe [][]byte, hist string, initial int64, capFaults int) {
	probeOpMask(c, base, cfg, op, universe, hist, initial, capFaults, seam.KAll)
}

// probeOpMask enumerates only the storage calls selected by mask.
func probeOpMask(c *fw.Ctx, base *seam.MemStore, cfg v1x.Config, op *fop, universe [][]byte, hist string, initial int64, capFaults int, mask int) {
	ref0, n := runFaulted(base, cfg, op, -1, mask, 0, 0, initial)
	if ref0.err != nil || ref0.panic != "" {
		c.Obs("ops_skipped_fail_without_fault", 1)
		return
	}
	c.Obs("ops_probed", 1)
	c.Obs("ops_probed_"+op.name, 1)
	judge := func(fr faultRun, label string, idx int) {
		if len(fr.fired) == 0 {
			c.Obs("faults_not_reached", 1)
			return
		}
		kind := kindsOf(fr.fired)
		c.Obs("faults_injected", 1)
		c.Obs("faults_"+kind, 1)
		where := fmt.Sprintf("%s with %s failing (%s %d of %d storage calls) {%s} after: %s", op.name, kind, label, idx, n, cfg, hist)
		if fr.slow != "" {
			c.Res.Inconcl = where + ": " + fr.slow
			return
		}
		if fr.hang != "" {
			c.Violate(idx, "fault|"+op.name+"|"+kind+"|hang", "%s: the operation never returned: the calling goroutine is blocked inside iavl and no other goroutine is left inside iavl that could wake it:\n%s", where, fr.hang)
			return
		}
		if fr.panic != "" {
			site := strings.SplitN(fr.panic, ":", 2)[0]
			c.Violate(idx, "fault|"+op.name+"|"+kind+"|panic|"+site, "%s: panic %s", where, fr.panic)
			return
		}
		if fr.err != nil {
			c.Obs("faults_reported_as_error", 1)
		} else {
			if op.write && anyWriteFault(fr.fired) {
				c.Violate(idx, "fault|"+op.name+"|"+kind+"|write-fault-reported-success", "%s: a storage write failed but the operation returned no error", where)
				return
			}
			if fr.res != ref0.res {
				sym := "silent-wrong-result"
				if len(fr.res) < len(ref0.res) && strings.HasPrefix(ref0.res, strings.TrimRight(fr.res, "0123456789")) {
					sym = "silent-short-result"
				}
				c.Violate(idx, "fault|"+op.name+"|"+kind+"|"+sym, "%s: no error, but the result %q differs from the fault-free result %q", where, fr.res, ref0.res)
				return
			}
			c.Obs("faults_masked_by_correct_fallback", 1)
		}
		if op.write {
			// the store left behind reopens to the state before or after
			cs := &cutSpec{kind: op.kind, old: op.old, new: op.new}
			for _, fast := range []bool{cfg.Fast, !cfg.Fast} {
				avail, problem, pcls := judgeState(fr.store.Clone(), cfg, fast, nil, universe)
				if problem != "" {
					c.Violate(idx, "fault|"+op.name+"|"+kind+"|after-"+pcls, "%s: reopening the store afterwards: %s", where, problem)
					return
				}
				cls := cs.classify(avail)
				if cls == "" {
					c.Violate(idx, "fault|"+op.name+"|"+kind+"|after-version-set-mixture", "%s: afterwards the store shows versions %v, neither %v nor %v", where, avail, op.old.vers, op.new.vers)
					return
				}
				if fr.err == nil && cls != "new" && cls != "same" {
					c.Violate(idx, "fault|"+op.name+"|"+kind+"|success-without-effect", "%s: the operation returned success but the store shows the %s state %v (expected %v)", where, cls, avail, op.new.vers)
					return
				}
				st := mergeStates(op.new, op.old)
				if cls == "new" {
					st = op.new
				}
				if _, problem, pcls = judgeState(fr.store.Clone(), cfg, fast, st, universe); problem != "" {
					c.Violate(idx, "fault|"+op.name+"|"+kind+"|after-"+pcls, "%s: reopening the store afterwards (%s state): %s", where, cls, problem)
					return
				}
			}
			c.Obs("post_states_judged", 1)
			// the SAME handle stays usable and keeps refusing to delete its real latest version
			if fr.err != nil && fr.panic == "" && fr.tree != nil && op.kind != "import" {
				avail, _, _ := judgeState(fr.store.Clone(), cfg, cfg.Fast, nil, universe)
				if len(avail) > 0 {
					realLatest := avail[len(avail)-1]
					before := fr.store.Clone()
					var derr error
					func() {
						defer func() {
							if r := recover(); r != nil {
								derr = fmt.Errorf("panic: %v", r)
							}
						}()
						derr = fr.tree.DeleteVersionsTo(realLatest)
					}()
					if derr == nil {
						c.Violate(idx, "fault|"+op.name+"|"+kind+"|then-latest-deleted", "%s: the operation reported the fault; afterwards DeleteVersionsTo(%d) on the same handle - a request to delete the real latest version - was accepted", where, realLatest)
						return
					}
					if !before.Equal(fr.store) {
						c.Violate(idx, "fault|"+op.name+"|"+kind+"|then-rejected-prune-had-effect", "%s: afterwards the rejected DeleteVersionsTo(%d) on the same handle changed the store", where, realLatest)
						return
					}
					c.Obs("same_handle_followups", 1)
				}
				// the caller REPEATS the deletion / rollback on the same handle once the storage works
				// again (what an application does with a reported, transient failure): if the repetition
				// reports success, the store must reopen to the state after the operation
				if (op.kind == "delto" || op.kind == "lfo") && len(c.Res.Violations) == 0 {
					var rerr error
					func() {
						defer func() {
							if r := recover(); r != nil {
								rerr = fmt.Errorf("panic: %v", r)
							}
						}()
						_, rerr = op.run(fr.tree)
					}()
					if rerr == nil {
						for _, fast := range []bool{cfg.Fast, !cfg.Fast} {
							avail, problem, pcls := judgeState(fr.store.Clone(), cfg, fast, op.new, universe)
							if problem != "" {
								c.Violate(idx, "fault|"+op.name+"|"+kind+"|repeated-ok-but-"+pcls, "%s: the operation reported the fault; repeated on the same handle (storage healthy again) it reported success, but reopening the store shows versions %v and: %s (expected the state after the operation, versions %v)", where, avail, problem, op.new.vers)
								return
							}
						}
						c.Obs("repeated_after_reported_fault_ok", 1)
					} else {
						c.Obs("repeated_after_reported_fault_failed_again(not_judged)", 1)
					}
				}
			}
		}
	}
	limit := n
	step := 1
	if limit > capFaults {
		step = (limit + capFaults - 1) / capFaults
	}
	for i := 0; i < limit; i += step {
		fr, _ := runFaulted(base, cfg, op, i, mask, 0, 0, initial)
		judge(fr, "call", i)
		if len(c.Res.Violations) > 12 {
			return
		}
	}
	for r := 0; r < 2; r++ {
		fr, _ := runFaulted(base, cfg, op, -1, seam.KAll, 0.08, c.Rng.Int63(), initial)
		judge(fr, "random multi-fault run", r)
	}
}

func init() {
	fw.Register(&fw.Check{
		ID:          "C17",
		Level:       "fault_enumeration",
		Cases:       func(tier string) int { return tierN(tier, 160, 5000) },
		CaseTimeout: 300e9,
		Rule: "case = one history (10-36 ops; 1-8 keys; cache 0/3; fast index on/off; flush threshold 150..default). At up to 3 points of the history every public operation with an error result is first run fault-free on a fresh handle over a clone of the store with the storage wrapper numbering its storage calls, then re-run once per call index (all indices up to 100 per operation, evenly sampled beyond) with exactly that call failing (Get, Has, iterator creation, iterator step, batch Set/Delete/Write), plus 2 random multi-fault runs (p=0.08). " +
			"After a deletion or rollback that reported its fault the same handle also REPEATS the operation with the storage healthy again: a repetition that reports success must leave a store that reopens to the state after the operation. " +
			"Read operations: Get, Has, GetWithIndex, GetByIndex, GetVersioned, GetImmutable+Get/GetWithIndex, GetProof, GetVersionedProof, Iterate and Iterator (mutable and immutable, both directions), Export, TraverseStateChanges, LoadVersion, GetLatestVersion. Write operations: SaveVersion, DeleteVersionsTo, LoadVersionForOverwriting, Import (incl. one >20000-node import - three background batches - per 33 cases, for which every batch write is failed once). " +
			"Oracle: an injected fault must end in an error, or in exactly the fault-free result (fallback paths are fine); a panic is a violation; a write operation during which a write call failed must not return success; after a faulted write operation a fresh tree on the store left behind must show the state before or after (C05 oracle: version set, every version readable on all paths), and exactly the new state if success was reported. " +
			"evaluations = histories; faults_injected counts the faulted executions; distinct = hash(config, ops); non-trivial = >=200 faults injected in the case incl. >=1 write operation.",
		Assumptions: []string{"faults are injected at the corestore interface (the seam the property is stated on); a failed batch Write applies nothing", "operations without an error result (IterateRange, Hash, VersionExists, AvailableVersions) are outside the statement"},
		Run: func(c *fw.Ctx) {
			w := map[string]int{"set": 40, "rm": 12, "save": 24, "rollback": 2, "reopen": 4, "load": 0, "delto": 6, "lfo": 5, "delfrom": 0}
			p := &v1x.GenParams{MinOps: 10, MaxOps: 36, W: w, MaxKeys: 8, InvalidPct: 0, Backends: []string{"mem"}, Initials: []int64{0, 0, 1, 5},
				BigValues: true, Flushes: []int{1, 150, 300, 0, 0}, Caches: []int{0, 0, 3}} // (flush threshold 1: every queued write is its own physical write)
			pl := v1x.MakePlan(c.Rng, p)
			c.Res.Digest = fw.DigestOf(pl.Cfg, pl.Summary(1000))
			if c.Index < 2 {
				c.Res.Sample = pl.Summary(60)
			}
			capF := 100
			e, err := v1x.NewEnv(c, pl.Cfg)
			if err != nil {
				c.Violate(0, "exec|open|error", "%v", err)
				return
			}
			defer e.Close()
			points := map[int]bool{len(pl.Ops) - 1: true}
			for i := 0; i < 2; i++ {
				points[c.Rng.Intn(len(pl.Ops))] = true
			}
			var pending []v1x.Op
			writeProbed := 0
			for i, op := range pl.Ops {
				isWrite := op.Kind == "save" || op.Kind == "delto" || op.Kind == "lfo"
				var base *seam.MemStore
				var old *vstate
				pend := append([]v1x.Op(nil), pending...)
				initial := int64(0)
				if e.M.Latest == 0 {
					initial = e.M.Initial
				}
				cfg := e.Cfg
				if isWrite {
					base, _ = seam.Dump(e.W.Inner)
					old = captureState(e)
				}
				out := e.Apply(op, false)
				if e.Dead {
					break
				}
				switch op.Kind {
				case "set", "rm":
					pending = append(pending, op)
				case "delto":
				default:
					if !(op.Kind == "save" && out.Expect.Fail) {
						pending = nil
					}
				}
				hist := e.Tail(25)
				if isWrite && out.Err == nil && !out.Expect.Fail && !out.Expect.Noop && !(op.Kind == "save" && out.Expect.Existing) && (c.Rng.Intn(3) == 0 || op.Kind != "save") {
					f := &fop{name: map[string]string{"save": "SaveVersion", "delto": "DeleteVersionsTo", "lfo": "LoadVersionForOverwriting"}[op.Kind], write: true, pending: pend, old: old, new: captureState(e), kind: op.Kind}
					n := op.N
					switch op.Kind {
					case "save":
						f.run = func(t *iavl.MutableTree) (string, error) {
							h, v, err := t.SaveVersion()
							return fmt.Sprintf("%x/%d", h, v), err
						}
					case "delto":
						f.run = func(t *iavl.MutableTree) (string, error) { return "", t.DeleteVersionsTo(n) }
					case "lfo":
						f.run = func(t *iavl.MutableTree) (string, error) { return "", t.LoadVersionForOverwriting(n) }
					}
					probeOp(c, base, cfg, f, pl.Universe, hist, initial, capF)
					writeProbed++
				}
				if points[i] && e.M.Latest > 0 {
					rb, _ := seam.Dump(e.W.Inner)
					ops := readOps(e, pl.Universe, c)
					c.Rng.Shuffle(len(ops), func(a, b int) { ops[a], ops[b] = ops[b], ops[a] })
					// the change-set traversal touches the root entry of every version: always probed
					for k := range ops {
						if ops[k].name == "TraverseStateChanges" {
							ops[0], ops[k] = ops[k], ops[0]
						}
					}
					if len(ops) > 14 {
						ops = ops[:14]
					}
					for k := range ops {
						cf := capF
						if ops[k].name == "TraverseStateChanges" {
							cf = 400
						}
						probeOp(c, rb, e.Cfg, &ops[k], pl.Universe, hist, 0, cf)
					}
				}
				c.State(e.AbstractState())
				if len(c.Res.Violations) > 12 {
					break
				}
			}
			// import under faults
			if !e.Dead && e.M.Latest > 0 && len(c.Res.Violations) == 0 {
				v := e.M.Latest
				big := c.Index%33 == 8 // (33 is coprime to the worker count: the expensive cases spread over all shards)
				src := e
				if big {
					be, err := v1x.NewEnv(c, v1x.Config{Backend: "mem", Fast: false})
					if err == nil {
						defer be.Close()
						for i := 0; i < 10100; i++ {
							be.Apply(v1x.Op{Kind: "set", K: []byte(fmt.Sprintf("big%05d", i)), V: []byte{1}}, false)
						}
						be.Apply(v1x.Op{Kind: "save"}, false)
						src, v = be, be.M.Latest
						c.Obs("big_imports_probed", 1)
					}
				}
				if it, err := src.T.GetImmutable(v); err == nil {
					if stream, err := exportStream(it, false); err == nil {
						newState := &vstate{vers: []int64{v}, snaps: map[int64]model.Snap{v: src.M.Vers[v]}, hashes: map[int64][]byte{v: src.R.Hashes[v]}}
						oldState := &vstate{snaps: map[int64]model.Snap{}, hashes: map[int64][]byte{}}
						f := &fop{name: "Import", write: true, fresh: true, old: oldState, new: newState, kind: "import"}
						f.run = func(t *iavl.MutableTree) (string, error) { return "", importStream(t, v, stream, false) }
						cf := capF
						uni := pl.Universe
						if big {
							cf = 16
							uni = nil
						}
						icfg := v1x.Config{Cache: 0, Fast: c.Rng.Intn(2) == 0, Backend: "mem", Flush: e.Cfg.Flush}
						ihist := fmt.Sprintf("import of version %d (%d nodes)", v, len(stream))
						if big {
							icfg.Flush = 0 // the importer's own 10000-node batches are the subject here, not the flusher's
							// a >10000-node import writes its nodes in background batches: every batch Write
							// (there are only a few) fails once, plus an even sample of all other calls
							probeOpMask(c, seam.NewMemStore(), icfg, f, uni, ihist+" [batch writes only]", 0, 24, seam.KBWrite)
						}
						probeOp(c, seam.NewMemStore(), icfg, f, uni, ihist, 0, cf)
						writeProbed++
					}
				}
			}
			c.Obs("steps", e.Step)
			c.Res.Nontrivial = c.Res.Obs["faults_injected"] >= 200 && writeProbed >= 1
		},
		Floor: func(obs map[string]int, evals, nontrivial int) string {
			for _, k := range []string{"faults_Get", "faults_Has", "faults_Iterator", "faults_IterNext", "faults_BatchSet", "faults_BatchDelete", "faults_BatchWrite", "ops_probed_SaveVersion", "ops_probed_DeleteVersionsTo", "ops_probed_LoadVersionForOverwriting", "ops_probed_Import", "ops_probed_Export", "ops_probed_GetProof", "post_states_judged"} {
				if obs[k] < 10 {
					return fmt.Sprintf("observation %s=%d below floor 10", k, obs[k])
				}
			}
			if obs["faults_injected"] < 20000 {
				return fmt.Sprintf("only %d faults injected", obs["faults_injected"])
			}
			return ""
		},
	})
}

var _ = errors.Is
var _ = bytes.Equal
