package checks

import (
	"bytes"
	"encoding/binary"
	"fmt"
	"math/rand"
	"runtime"
	"runtime/debug"
	"sort"

	"github.com/cosmos/iavl"
	"github.com/cosmos/iavl/fastnode"

	"verif/internal/codec"
	"verif/internal/fw"
	"verif/internal/ref"
	"verif/internal/seam"
	"verif/internal/v1x"
)

// compareFormat checks the raw store against R for every retained version (C13, forward).
func compareFormat(e *v1x.Env) {
	raw, err := v1x.ScanRaw(e.W.Inner)
	if err != nil {
		e.Bad("format|scan|error", "%v", err)
		return
	}
	// numeric (version, nonce) order of the 's' key space
	if !sort.SliceIsSorted(raw.SOrder, func(i, j int) bool {
		a, b := raw.SOrder[i], raw.SOrder[j]
		if a.Version != b.Version {
			return a.Version < b.Version
		}
		return a.Nonce < b.Nonce
	}) {
		e.Bad("format|keys|order", "'s' keys do not iterate in numeric (version, nonce) order: %v", raw.SOrder)
	}
	for _, v := range e.M.Versions() {
		root := e.R.Roots[v]
		rk := codec.NK{Version: v, Nonce: 1}
		val, ok := raw.S[rk]
		if !ok {
			e.Bad("format|root|missing", "no root entry for retained version %d", v)
			continue
		}
		kind, refNK, err := codec.ClassifyRoot(val)
		if err != nil {
			e.Bad("format|root|invalid", "root entry of version %d: %v", v, err)
			continue
		}
		wantKind := codec.RootNode
		switch {
		case root == nil:
			wantKind = codec.RootEmpty
		case root.Version != v:
			wantKind = codec.RootRef
		}
		if kind != wantKind {
			e.Bad("format|root|kind", "root entry of version %d is of kind %q, the reference tree says %q", v, kind, wantKind)
			continue
		}
		if root == nil {
			e.C.Obs("format_root_empty", 1)
			e.C.Obs("format_versions_compared", 1)
			continue
		}
		start := rk
		if kind == codec.RootRef {
			want := codec.NK{Version: root.Version, Nonce: root.Nonce}
			if !sameNode(e, refNK, want) {
				e.Bad("format|root|ref-target", "reference root of version %d points to %v, the reference tree says %v", v, refNK, want)
				continue
			}
			start = want
		}
		n := 0
		var rec func(r *ref.Node, nk codec.NK) bool
		rec = func(r *ref.Node, nk codec.NK) bool {
			n++
			if want := (codec.NK{Version: r.Version, Nonce: r.Nonce}); nk != want {
				e.Bad("format|node|key", "version %d: node %q is linked as %v, the reference tree numbers it %v", v, r.Key, nk, want)
				return false
			}
			at, val, ok := resolveRaw(raw, nk)
			if !ok {
				e.Bad("format|node|dangling", "version %d: node %v is not in storage", v, nk)
				return false
			}
			d, err := codec.DecodeNode(nk, val)
			if err != nil {
				e.Bad("format|node|undecodable", "version %d: node %v (stored at %v): %v", v, nk, at, err)
				return false
			}
			exp := &codec.Node{NK: nk, Height: r.Height, Size: r.Size, Key: r.Key}
			if r.IsLeaf() {
				exp.Value = r.Value
			} else {
				exp.Hash = ref.HashAt(r, v)
				exp.Left = codec.NK{Version: r.Left.Version, Nonce: r.Left.Nonce}
				exp.Right = codec.NK{Version: r.Right.Version, Nonce: r.Right.Nonce}
			}
			// a link may name a pruned version's old root by its re-keyed storage key (v,0)
			wantL, wantR := exp.Left, exp.Right
			if !r.IsLeaf() {
				if sameNode(e, d.Left, exp.Left) {
					exp.Left = d.Left
				}
				if sameNode(e, d.Right, exp.Right) {
					exp.Right = d.Right
				}
			}
			if d.Height != exp.Height || d.Size != exp.Size || !bytes.Equal(d.Key, exp.Key) || !bytes.Equal(d.Value, exp.Value) || (d.Value == nil) != (exp.Value == nil) ||
				!bytes.Equal(d.Hash, exp.Hash) || d.Left != exp.Left || d.Right != exp.Right || d.LeftLegacy != nil || d.RightLegacy != nil {
				e.Bad("format|node|fields", "version %d: stored node %v decodes to {h=%d size=%d key=%q val=%q hash=%x L=%v R=%v}, the reference tree says {h=%d size=%d key=%q val=%q hash=%x L=%v R=%v}",
					v, nk, d.Height, d.Size, d.Key, d.Value, d.Hash, d.Left, d.Right, exp.Height, exp.Size, exp.Key, exp.Value, exp.Hash, exp.Left, exp.Right)
				return false
			}
			if want := codec.EncodeNode(exp); !bytes.Equal(want, val) {
				e.Bad("format|node|bytes", "version %d: stored bytes of node %v are %x, the independent encoder of the pinned format gives %x", v, nk, val, want)
				return false
			}
			if !r.IsLeaf() {
				return rec(r.Left, wantL) && rec(r.Right, wantR)
			}
			return true
		}
		rec(root, start)
		e.C.Obs("format_nodes_compared", n)
		e.C.Obs("format_versions_compared", 1)
		e.C.Obs("format_root_"+kind, 1)
	}
	// fast entries are byte-exact too
	if e.Cfg.Fast && e.M.Base == e.M.Latest {
		for k, fn := range raw.Fast {
			_ = k
			if fn.Version <= 0 {
				e.Bad("format|fast|version", "fast entry %q has version %d", k, fn.Version)
			}
		}
		if raw.HasLbl && raw.Label != fmt.Sprintf("1.1.0-%d", e.M.Latest) {
			e.Bad("format|label|value", "label is %q, want 1.1.0-%d", raw.Label, e.M.Latest)
		}
	}
}

// sameNode: got names the node want, either literally or - for the old root of an already pruned
// version - by its re-keyed storage key (v,0), which the library resolves to the same entry.
func sameNode(e *v1x.Env, got, want codec.NK) bool {
	if got == want {
		return true
	}
	if want.Nonce == 1 && got.Nonce == 0 && got.Version == want.Version && want.Version < e.M.First {
		e.C.Obs("links_spelled_with_the_rekeyed_root_key", 1)
		return true
	}
	return false
}

func resolveRaw(raw *v1x.Raw, nk codec.NK) (codec.NK, []byte, bool) {
	if v, ok := raw.S[nk]; ok {
		return nk, v, true
	}
	if nk.Nonce == 1 {
		alt := codec.NK{Version: nk.Version, Nonce: 0}
		if v, ok := raw.S[alt]; ok {
			return alt, v, true
		}
	}
	return nk, nil, false
}

// encodeStore writes a database with D's encoder from R's trees.
func encodeStore(h *ref.History, versions []int64, newNodes map[int64][]*ref.Node, fast bool, ref9 bool, hiNonce bool) *seam.MemStore {
	s := seam.NewMemStore()
	var ops []seam.WOp
	// nonces are 32-bit unsigned numbers, unique within a version; only nonce 1 (the root) has a
	// meaning. With hiNonce every other nonce is moved into the upper half of the range.
	mapN := func(n uint32) uint32 {
		if !hiNonce || n <= 1 {
			return n
		}
		return n + 1<<31
	}
	for _, v := range versions {
		for _, n := range newNodes[v] {
			cn := &codec.Node{Height: n.Height, Size: n.Size, Key: n.Key}
			if n.IsLeaf() {
				cn.Value = n.Value
				if cn.Value == nil {
					cn.Value = []byte{}
				}
			} else {
				cn.Hash = ref.HashAt(n, v)
				cn.Left = codec.NK{Version: n.Left.Version, Nonce: mapN(n.Left.Nonce)}
				cn.Right = codec.NK{Version: n.Right.Version, Nonce: mapN(n.Right.Nonce)}
			}
			ops = append(ops, seam.WOp{K: codec.NK{Version: n.Version, Nonce: mapN(n.Nonce)}.StoreKey(), V: codec.EncodeNode(cn)})
		}
		root := h.Roots[v]
		rk := codec.NK{Version: v, Nonce: 1}.StoreKey()
		switch {
		case root == nil:
			ops = append(ops, seam.WOp{K: rk, V: []byte{}})
		case root.Version != v:
			if ref9 && root.Nonce == 1 {
				val := make([]byte, 9)
				val[0] = 's'
				binary.BigEndian.PutUint64(val[1:], uint64(root.Version))
				ops = append(ops, seam.WOp{K: rk, V: val})
			} else {
				ops = append(ops, seam.WOp{K: rk, V: codec.NK{Version: root.Version, Nonce: mapN(root.Nonce)}.StoreKey()})
			}
		}
	}
	if fast && len(versions) > 0 {
		latest := versions[len(versions)-1]
		ref.Walk(h.Roots[latest], func(n *ref.Node) bool {
			if n.IsLeaf() {
				ops = append(ops, seam.WOp{K: append([]byte{'f'}, n.Key...), V: codec.EncodeFast(n.Version, n.Value)})
			}
			return true
		})
		ops = append(ops, seam.WOp{K: codec.LabelKey, V: []byte(fmt.Sprintf("1.1.0-%d", latest))})
	}
	s.ApplyOps(ops)
	return s
}

func runReverseFormat(c *fw.Ctx) {
	rng := c.Rng
	initial := []int64{0, 0, 1, 7, 64, 8150}[rng.Intn(6)]
	h := ref.NewHistory(initial)
	universe := v1x.Universe(rng, 10)
	newNodes := map[int64][]*ref.Node{}
	contents := map[int64]map[string]string{}
	cur := map[string]string{}
	var versions []int64
	nver := 1 + rng.Intn(6)
	vc := 0
	for i := 0; i < nver; i++ {
		nops := rng.Intn(7)
		if rng.Intn(5) == 0 {
			nops = 0 // commit without writes -> reference / empty root
		}
		for j := 0; j < nops; j++ {
			k := universe[rng.Intn(len(universe))]
			if rng.Intn(4) == 0 {
				h.Remove(k)
				delete(cur, string(k))
			} else {
				vc++
				val := []byte(fmt.Sprintf("v%d", vc))
				if rng.Intn(15) == 0 {
					val = []byte{}
				}
				h.Set(k, val)
				cur[string(k)] = string(val)
			}
		}
		_, v, nn := h.Commit()
		newNodes[v] = nn
		versions = append(versions, v)
		snap := map[string]string{}
		for k, x := range cur {
			snap[k] = x
		}
		contents[v] = snap
	}
	fast := rng.Intn(2) == 0
	ref9 := rng.Intn(3) == 0
	hiNonce := (c.Index/3)%4 == 1 // (node nonces in the upper half of the 32-bit range; ref9 needs nonce 1 roots only)
	if hiNonce {
		c.Obs("reverse_stores_with_nonces_above_2^31", 1)
	}
	store := encodeStore(h, versions, newNodes, fast, ref9, hiNonce)
	c.Res.Digest = fw.DigestOf("reverse", c.Index, versions, len(universe), fast, ref9, hiNonce)
	c.Res.Nontrivial = len(versions) >= 2
	cfg := v1x.Config{Cache: []int{0, 3, 1000}[rng.Intn(3)], Fast: rng.Intn(2) == 0, Backend: "mem"}
	t := iavl.NewMutableTree(seam.NewWrap(store), cfg.Cache, !cfg.Fast, iavl.NewNopLogger())
	bad := func(sig, f string, a ...any) {
		c.Violate(0, sig, "%s [externally encoded store: versions %v initial=%d fast=%v ref9=%v nonces-above-2^31=%v; opened with %s]", fmt.Sprintf(f, a...), versions, initial, fast, ref9, hiNonce, cfg)
	}
	latest := versions[len(versions)-1]
	lv, err := t.Load()
	if err != nil || lv != latest {
		bad("format|reverse|load", "Load() = (%d,%v), want latest %d", lv, err, latest)
		return
	}
	for _, v := range versions {
		it, err := t.GetImmutable(v)
		if err != nil {
			bad("format|reverse|getimmutable", "GetImmutable(%d): %v", v, err)
			return
		}
		if !bytes.Equal(it.Hash(), h.Hashes[v]) {
			bad("format|reverse|hash", "version %d hash %x, reference %x", v, it.Hash(), h.Hashes[v])
		}
		var gk, gv []string
		it.Iterate(func(k, val []byte) bool { gk = append(gk, string(k)); gv = append(gv, string(val)); return false })
		want := contents[v]
		keys := make([]string, 0, len(want))
		for k := range want {
			keys = append(keys, k)
		}
		sort.Strings(keys)
		same := len(keys) == len(gk)
		for i := 0; same && i < len(keys); i++ {
			same = gk[i] == keys[i] && gv[i] == want[keys[i]]
		}
		if !same {
			bad("format|reverse|contents", "version %d reads as %q=%q, encoded contents were %v", v, gk, gv, want)
		}
		for _, k := range keys {
			val, err := it.Get([]byte(k))
			if err != nil || string(val) != want[k] || val == nil {
				// (a nil result means "no such key": an encoded empty value must come back empty, not nil)
				bad("format|reverse|get", "version %d Get(%q)=(%q,nil=%v,%v), want %q", v, k, val, val == nil, err, want[k])
			}
			if has, err := it.Has([]byte(k)); err != nil || !has {
				bad("format|reverse|has", "version %d Has(%q)=(%v,%v) for an encoded key", v, k, has, err)
			}
		}
		c.Obs("reverse_versions_read", 1)
	}
	// a further commit continues canonically
	k := universe[rng.Intn(len(universe))]
	if _, err := t.Set(k, []byte("next")); err != nil {
		bad("format|reverse|set", "%v", err)
		return
	}
	h.Set(k, []byte("next"))
	wantHash, wantV, _ := h.Commit()
	hash, ver, err := t.SaveVersion()
	if err != nil || ver != wantV || !bytes.Equal(hash, wantHash) {
		bad("format|reverse|next-commit", "SaveVersion on top = (%x,%d,%v), reference (%x,%d)", hash, ver, err, wantHash, wantV)
	}
	c.Obs("reverse_stores_opened", 1)
	if ref9 {
		c.Obs("reverse_stores_with_9byte_refs", 1)
	}
}

// ---- decoder totality ----

type decoderCall struct {
	name string
	fn   func(in []byte) error
}

func decoders() []decoderCall {
	nk := codec.NK{Version: 7, Nonce: 3}.Bytes()
	hash := bytes.Repeat([]byte{0xab}, 32)
	return []decoderCall{
		{"MakeNode", func(in []byte) error { _, err := iavl.MakeNode(nk, in); return err }},
		{"MakeLegacyNode", func(in []byte) error { _, err := iavl.MakeLegacyNode(hash, in); return err }},
		{"DeserializeNode", func(in []byte) error { _, err := fastnode.DeserializeNode([]byte("k"), in); return err }},
		{"DecodeBytes", func(in []byte) error { _, _, err := iavl.VerifDecodeBytes(in); return err }},
		{"DecodeUvarint", func(in []byte) error { _, _, err := iavl.VerifDecodeUvarint(in); return err }},
		{"DecodeVarint", func(in []byte) error { _, _, err := iavl.VerifDecodeVarint(in); return err }},
		{"RootReader", rootReader},
	}
}

// rootReader stores the input as the root entry of version 3 (next to a valid version 2) and reads
// it through the public API.
func rootReader(in []byte) error {
	s := seam.NewMemStore()
	leaf := &codec.Node{Height: 0, Size: 1, Key: []byte("a"), Value: []byte("1")}
	s.ApplyOps([]seam.WOp{
		{K: codec.NK{Version: 2, Nonce: 1}.StoreKey(), V: codec.EncodeNode(leaf)},
		{K: codec.NK{Version: 3, Nonce: 1}.StoreKey(), V: append([]byte{}, in...)},
		// (version 4 refers back to version 3: an input that refers to version 3 or 4 closes a cycle)
		{K: codec.NK{Version: 4, Nonce: 1}.StoreKey(), V: codec.NK{Version: 3, Nonce: 1}.StoreKey()},
	})
	t := iavl.NewMutableTree(s, 0, true, iavl.NewNopLogger())
	_ = t.VersionExists(3)
	_, err1 := t.GetImmutable(3)
	_ = t.VersionExists(4)
	_, _ = t.GetImmutable(4)
	_, err2 := t.LoadVersion(3)
	if err1 != nil {
		return err1
	}
	return err2
}

func validEncodings(rng *rand.Rand) [][]byte {
	var out [][]byte
	key := make([]byte, 1+rng.Intn(40))
	rng.Read(key)
	val := make([]byte, rng.Intn(60))
	rng.Read(val)
	h := make([]byte, 32)
	rng.Read(h)
	leaf := &codec.Node{Height: 0, Size: 1, Key: key, Value: val}
	in := &codec.Node{Height: int8(1 + rng.Intn(20)), Size: int64(2 + rng.Intn(1000)), Key: key, Hash: h,
		Left: codec.NK{Version: int64(1 + rng.Intn(1<<20)), Nonce: uint32(rng.Intn(1 << 16))}, Right: codec.NK{Version: int64(1 + rng.Intn(300)), Nonce: uint32(1 + rng.Intn(200))}}
	inLegacy := &codec.Node{Height: 3, Size: 5, Key: key, Hash: h, LeftLegacy: h, Right: codec.NK{Version: 9, Nonce: 2}}
	inLegacy2 := &codec.Node{Height: 3, Size: 5, Key: key, Hash: h, LeftLegacy: h, RightLegacy: h}
	out = append(out, codec.EncodeNode(leaf), codec.EncodeNode(in), codec.EncodeNode(inLegacy), codec.EncodeNode(inLegacy2), codec.EncodeFast(int64(rng.Intn(1<<30)), val))
	// legacy node encodings
	var lb bytes.Buffer
	pv := func(v int64) { var b [10]byte; lb.Write(b[:binary.PutVarint(b[:], v)]) }
	pb := func(x []byte) { var b [10]byte; lb.Write(b[:binary.PutUvarint(b[:], uint64(len(x)))]); lb.Write(x) }
	pv(0)
	pv(1)
	pv(12)
	pb(key)
	pb(val)
	out = append(out, append([]byte(nil), lb.Bytes()...))
	lb.Reset()
	pv(2)
	pv(3)
	pv(12)
	pb(key)
	pb(h)
	pb(h)
	out = append(out, append([]byte(nil), lb.Bytes()...))
	// root markers
	out = append(out, codec.NK{Version: 2, Nonce: 1}.StoreKey(), codec.NK{Version: 2, Nonce: 1}.StoreKey()[:9], []byte{})
	// reference roots that name the entry they are stored under, its neighbour (which refers back) and
	// entries that do not exist - in the 13-byte and the 9-byte form
	for _, nk := range []codec.NK{{Version: 3, Nonce: 1}, {Version: 4, Nonce: 1}, {Version: 3, Nonce: 0}, {Version: 5, Nonce: 1}, {Version: 2, Nonce: 0}} {
		out = append(out, nk.StoreKey(), nk.StoreKey()[:9])
	}
	return out
}

func mutate(rng *rand.Rand, in []byte) []byte {
	b := append([]byte(nil), in...)
	switch rng.Intn(8) {
	case 0: // truncate
		if len(b) > 0 {
			b = b[:rng.Intn(len(b))]
		}
	case 1: // bit flips
		for i := 0; i < 1+rng.Intn(3) && len(b) > 0; i++ {
			b[rng.Intn(len(b))] ^= 1 << uint(rng.Intn(8))
		}
	case 2: // inflate a length / varint field: splice a huge uvarint at a random position
		var v [10]byte
		n := binary.PutUvarint(v[:], []uint64{1 << 31, 1 << 40, 1<<63 - 1, 1 << 63, ^uint64(0), uint64(len(b)) + 1}[rng.Intn(6)])
		pos := 0
		if len(b) > 0 {
			pos = rng.Intn(len(b))
		}
		b = append(append(append([]byte(nil), b[:pos]...), v[:n]...), b[pos:]...)
	case 3: // overwrite a byte with 0xff / 0x80 (continuation bits)
		if len(b) > 0 {
			b[rng.Intn(len(b))] = []byte{0xff, 0x80, 0x00, 0x7f}[rng.Intn(4)]
		}
	case 4: // random bytes
		b = make([]byte, rng.Intn(64))
		rng.Read(b)
	case 5: // all continuation bytes
		b = bytes.Repeat([]byte{0xff}, rng.Intn(24))
	case 6: // append garbage
		g := make([]byte, rng.Intn(16))
		rng.Read(g)
		b = append(b, g...)
	case 7: // keep valid
	}
	return b
}

func runDecoderTotality(c *fw.Ctx, perCase int) {
	rng := c.Rng
	decs := decoders()
	pool := validEncodings(rng)
	var ms runtime.MemStats
	c.Res.Digest = fw.DigestOf("totality", c.Index)
	c.Res.Nontrivial = true
	for i := 0; i < perCase; i++ {
		in := mutate(rng, pool[rng.Intn(len(pool))])
		d := decs[rng.Intn(len(decs))]
		if d.name == "RootReader" && i%8 != 0 {
			d = decs[rng.Intn(len(decs)-1)]
		}
		measure := i%16 == 0
		var before uint64
		if measure {
			runtime.ReadMemStats(&ms)
			before = ms.TotalAlloc
		}
		var err error
		func() {
			defer func() {
				if r := recover(); r != nil {
					c.Violate(i, "decoder|"+d.name+"|panic", "%s panicked on input %x: %v\n%s", d.name, in, r, firstIavlFrames(string(debug.Stack())))
				}
			}()
			err = d.fn(in)
		}()
		if measure {
			runtime.ReadMemStats(&ms)
			grown := ms.TotalAlloc - before
			limit := uint64(256*len(in) + 64*1024)
			if d.name == "RootReader" {
				limit += 4 << 20
			}
			if grown > limit {
				c.Violate(i, "decoder|"+d.name+"|allocation", "%s allocated %d bytes for a %d-byte input %x", d.name, grown, len(in), in)
			}
			c.Obs("allocation_measurements", 1)
		}
		if err != nil {
			c.Obs("decoder_inputs_rejected_"+d.name, 1)
		} else {
			c.Obs("decoder_inputs_accepted_"+d.name, 1)
		}
		if len(c.Res.Violations) > 3 {
			return
		}
	}
	c.Obs("decoder_inputs", perCase)
}

func firstIavlFrames(st string) string {
	var out []string
	for _, l := range bytes.Split([]byte(st), []byte("\n")) {
		if bytes.Contains(l, []byte("cosmos/iavl")) {
			out = append(out, string(l))
		}
		if len(out) > 8 {
			break
		}
	}
	return fmt.Sprint(out)
}

func init() {
	fw.Register(&fw.Check{
		ID:    "C13",
		Level: "exploration",
		Cases: func(tier string) int { return tierN(tier, 900, 30000) },
		Rule: "three case kinds by index mod 3. (0) forward: one history (10-45 ops; in half of them WorkingHash() is called between the writes of a version, which memoises node hashes and must not change what is stored; initial versions incl. 8150 so that version/nonce/size varints cross 1- and 2-byte boundaries; pruning, rollback, reopen) after EVERY step of which the raw storage is decoded by the independent decoder D and compared with the reference tree R for every retained version: node key numbering, heights, sizes, keys, values, stored inner hashes, child links, root marker kind and reference target, byte-exact equality of every stored node with D's ENCODER applied to R's node (catches non-canonical varints), numeric iteration order of the 's' keys. " +
			"(1) reverse: a database written only by D's encoder from R's trees (1-6 versions, in a quarter of the cases with every non-root nonce moved above 2^31, reference roots in the 13-byte and the old 9-byte form, empty roots, with/without fast index and label, initial versions) is opened by iavl: Load, contents, Get and hash of every version, and a further commit must agree with R. " +
			"(2) totality: 400 (quick) / 4000 (thorough) inputs per case - truncations, bit flips, length-field inflation up to 2^64-1, continuation-byte runs, appended garbage, random bytes, all derived from valid encodings of leaf/inner/legacy-child/legacy nodes, fast nodes and root markers - given to MakeNode, MakeLegacyNode, fastnode.DeserializeNode, DecodeBytes/DecodeUvarint/DecodeVarint (verif hook) and the reference-root reader (VersionExists/GetImmutable/LoadVersion over a store with a crafted root entry next to a valid version and a version that refers back to the crafted one; the inputs include reference roots naming their own entry, that neighbour, and missing entries): a panic or an allocation beyond 256*len+64KiB (sampled 1 in 16 with runtime.MemStats) is a violation; a hang trips the per-case watchdog. " +
			"distinct = hash(kind, config, ops / index); non-trivial = forward: >=2 commits; reverse: >=2 versions; totality: always.",
		Assumptions: []string{"D (internal/codec) implements the pinned format independently (encoding/binary only); R is the reference tree", "only the entry points the property lists are fuzzed; walking a successfully decoded but nonsensical node is out of scope"},
		Run: func(c *fw.Ctx) {
			switch c.Index % 3 {
			case 0:
				w := map[string]int{"set": 40, "rm": 14, "save": 22, "rollback": 2, "reopen": 5, "load": 2, "delto": 7, "lfo": 3, "delfrom": 1, "redo": 2}
				// half of the forward cases get extra writes whose key / value lengths sit on uvarint
				// boundaries. Those writes are not part of the planned history, so these cases use only
				// operations whose validity does not depend on what exactly was committed (no loads of
				// older versions, no re-commits, no rollbacks to a version).
				inject := c.Index%6 == 0
				if inject {
					w = map[string]int{"set": 40, "rm": 14, "save": 24, "rollback": 2, "delto": 7}
				}
				p := &v1x.GenParams{MinOps: 10, MaxOps: 45, W: w, MaxKeys: 12, InvalidPct: 2, Backends: []string{"mem"}, Initials: []int64{0, 0, 1, 5, 63, 64, 8150, 8191, 1048570}, BigValues: true}
				if inject {
					p.InvalidPct = 0
				}
				if c.Tier == "thorough" {
					p.MaxOps = 100
					p.MaxKeys = 30
				}
				pl := v1x.MakePlan(c.Rng, p)
				if (c.Index/3)%5 == 2 {
					pl.Cfg.Backend = "prefix" // (PrefixDB over MemDB, prefix slice with spare capacity; the raw scan reads through the view)
				}
				c.Res.Digest = fw.DigestOf("forward", pl.Cfg, pl.Summary(1000))
				if c.Index < 3 {
					c.Res.Sample = pl.Summary(60)
				}
				e, err := v1x.NewEnv(c, pl.Cfg)
				if err != nil {
					c.Violate(0, "exec|open|error", "%v", err)
					return
				}
				defer e.Close()
				saves := 0
				// keys and values whose lengths sit on the boundaries of the length prefix (uvarint)
				boundary := []int{127, 128, 129, 255, 256, 16383, 16384}
				for i, op := range pl.Ops {
					if inject && i%5 == 3 && (op.Kind == "set" || op.Kind == "save") {
						l := boundary[c.Rng.Intn(len(boundary))]
						if c.Rng.Intn(2) == 0 {
							e.Apply(v1x.Op{Kind: "set", K: []byte(fmt.Sprintf("len%05d", l)), V: bytes.Repeat([]byte{byte('a' + l%26)}, l)}, false)
						} else if l <= 256 {
							e.Apply(v1x.Op{Kind: "set", K: bytes.Repeat([]byte{byte('k')}, l), V: []byte(fmt.Sprintf("klen%d", l))}, false)
						}
						c.Obs("boundary_length_writes", 1)
					}
					out := e.Apply(op, false)
					if e.Dead {
						break
					}
					if op.Kind == "save" && out.Err == nil {
						saves++
					}
					// read-only hash / proof calls between the writes of a version memoise node hashes;
					// what is stored at the next commit must not depend on them (cases with c.Index%4 >= 2)
					if c.Index%4 >= 2 && (op.Kind == "set" || op.Kind == "rm") && i%2 == 0 {
						e.T.WorkingHash()
						c.Obs("hash_calls_between_writes", 1)
					}
					if op.Kind != "set" && op.Kind != "rm" && op.Kind != "rollback" {
						compareFormat(e)
					}
					c.State(e.AbstractState())
					if len(c.Res.Violations) > 0 {
						break
					}
				}
				c.Obs("steps", e.Step)
				c.Res.Nontrivial = saves >= 2
			case 1:
				runReverseFormat(c)
			case 2:
				n := 400
				if c.Tier == "thorough" {
					n = 4000
				}
				runDecoderTotality(c, n)
			}
		},
		Floor: func(obs map[string]int, evals, nontrivial int) string {
			if obs["format_nodes_compared"] < 10000 || obs["reverse_stores_opened"] < 100 || obs["decoder_inputs"] < 50000 || obs["format_root_ref"] < 50 || obs["format_root_empty"] < 50 || obs["reverse_stores_with_9byte_refs"] < 10 {
				return fmt.Sprintf("too few observations: %v", obs)
			}
			return ""
		},
	})
}
