package checks

import (
	"bytes"
	"fmt"

	"verif/internal/fw"
	"verif/internal/seam"
	"verif/internal/v1x"
)

// twin builds a fresh tree on a fresh store that replays only the surviving history: for every
// version of the chain up to v the recorded writes of that version and a commit, then the same
// pruning (DeleteVersionsTo(first-1)).
func buildTwin(c *fw.Ctx, e *v1x.Env, writes map[int64][]v1x.Op, chainStart, v int64) (*v1x.Env, error) {
	cfg := e.Cfg
	cfg.Initial = 0
	if chainStart > 1 {
		cfg.Initial = chainStart
	}
	t, err := v1x.NewEnv(c, cfg)
	if err != nil {
		return nil, err
	}
	for w := chainStart; w <= v; w++ {
		ws, ok := writes[w]
		if !ok {
			t.Close()
			return nil, fmt.Errorf("no recorded writes for version %d", w)
		}
		for _, op := range ws {
			t.Apply(op, false)
		}
		t.Apply(v1x.Op{Kind: "save"}, false)
		if t.Dead {
			t.Close()
			return nil, fmt.Errorf("twin replay failed at version %d", w)
		}
	}
	if e.M.First > chainStart {
		t.Apply(v1x.Op{Kind: "delto", N: e.M.First - 1}, false)
		if t.Dead {
			t.Close()
			return nil, fmt.Errorf("twin pruning failed")
		}
	}
	return t, nil
}

func init() {
	fw.Register(&fw.Check{
		ID:    "C09",
		Level: "exploration",
		Cases: func(tier string) int { return tierN(tier, 800, 50000) },
		Rule: "case = one history (14-55 ops quick, up to 120 thorough) with rollback targets v = latest / first / middle, repeated and nested rollbacks (Rollback(), LoadVersionForOverwriting(v), DeleteVersionsFrom(v+1)+LoadVersion(v)), rollbacks after pruning, uncommitted writes present at rollback time, caches 0/1/3/1000, fast index on/off, flush thresholds 150..default. " +
			"Rollback(): every read path of the working tree (model battery, fast-vs-walk, WorkingHash) must equal the last committed version. Rollback to v: every version > v unavailable on every API (live and reopened), every version <= v with unchanged observation vector (hash, contents, reads, proofs); from then on a TWIN - a fresh tree on a fresh store that replayed only the surviving history under the same configuration - receives the same further operations and every outcome (errors, versions, commit hashes, working hashes, available versions, full read battery) is compared step by step; both are also checked against M/R, the raw-storage audit (C12 monitor) runs on the rolled-back store, and raw-store equality with the twin is recorded (not alarmed). " +
			"Every 5th case uses its first handle without an initial Load(): a prefix of 3-6 operations writes to the fresh tree, then issues LoadVersion on the store that still has no version (nothing is loaded, the working tree is kept), with or without a Rollback after it, and the planned history follows. distinct = hash(config, ops); non-trivial = >=1 rollback to a version that erased >=1 version, followed by >=1 further commit.",
		Assumptions: []string{"M and R as in C01/C02", "the twin is built by replaying the recorded per-version write sets; raw-store equality with the twin is stronger than the property and only recorded"},
		Run: func(c *fw.Ctx) {
			w := map[string]int{"set": 34, "rm": 14, "save": 22, "rollback": 8, "reopen": 5, "load": 1, "delto": 4, "lfo": 9, "delfrom": 4, "redo": 3}
			p := &v1x.GenParams{MinOps: 14, MaxOps: 55, W: w, MaxKeys: 8, InvalidPct: 4,
				Backends: []string{"mem"}, Initials: []int64{0, 0, 0, 1, 6}, BigValues: true}
			if c.Tier == "thorough" {
				p.MaxOps = 120
			}
			pl := v1x.MakePlan(c.Rng, p)
			v1x.LazyPrefix(pl, c.Index)
			if v1x.EmptyKeyVariant(pl, c.Index) {
				c.Obs("histories_with_the_empty_key", 1)
			}
			c.Res.Digest = fw.DigestOf(pl.Cfg, pl.Summary(1000))
			if c.Index < 2 {
				c.Res.Sample = pl.Summary(60)
			}
			e, err := v1x.NewEnv(c, pl.Cfg)
			if err != nil {
				c.Violate(0, "exec|open|error", "%v", err)
				return
			}
			defer e.Close()
			var twin *v1x.Env
			defer func() {
				if twin != nil {
					twin.Close()
				}
			}()
			writes := map[int64][]v1x.Op{}
			var cur []v1x.Op
			chainStart := int64(0)
			erased, commitsAfter := 0, 0
			var pk []byte
			if len(pl.Universe) > 0 {
				pk = pl.Universe[0]
			}
			for _, op := range pl.Ops {
				isRB := op.Kind == "lfo" || op.Kind == "delfrom"
				before := map[int64]*obsVector{}
				latestBefore := e.M.Latest
				if isRB && e.M.Exists(op.N) {
					for _, v := range e.M.Versions() {
						if v <= op.N {
							ov, err := observeVersion(e, e.T, v, pl.Universe)
							if err != nil {
								e.Bad("rollback|pre|unreadable", "%v", err)
							}
							before[v] = ov
						}
					}
				}
				baseBefore := e.M.Base
				out := e.Apply(op, true)
				if e.Dead {
					break
				}
				// bookkeeping of per-version writes
				switch op.Kind {
				case "set", "rm":
					cur = append(cur, op)
				case "save":
					if out.Err == nil && !out.Expect.Existing {
						writes[out.Version] = cur
						if chainStart == 0 {
							chainStart = out.Version
						}
						if erased > 0 {
							commitsAfter++
						}
					}
					if out.Err == nil {
						cur = nil
					}
				case "rollback", "load", "reopen", "lfo", "delfrom":
					// (LoadVersion on a store without versions loads nothing: the handle keeps its
					// uncommitted writes, and so does this record)
					if out.Err == nil && !out.Expect.Noop && !(op.Kind == "load" && latestBefore == 0) {
						cur = nil
					}
				}
				_ = baseBefore
				switch {
				case op.Kind == "rollback":
					// working tree == last committed version on every read path
					e.CheckReads(e.T, e.M.Work, "work-after-rollback", v1x.Probes(pl.Universe, e.M.Work))
					checkFastCoherence(e, pl.Universe)
					checkHashes(e, "after-rollback", true)
					c.Obs("rollbacks_discard", 1)
				case isRB && out.Err == nil && !out.Expect.Noop && !out.Expect.Fail:
					v := op.N
					c.Obs("rollbacks_to_version", 1)
					if latestBefore > v {
						erased++
						c.Obs("rollbacks_that_erased", 1)
					}
					h2 := e.OpenHandle(e.Cfg)
					if _, err := h2.Load(); err != nil {
						e.Bad("rollback|reopen|load-error", "Load() after %s: %v", op, err)
						break
					}
					for x := v + 1; x <= latestBefore; x++ {
						unavailable(e, e.T, x, "live", pk)
						unavailable(e, h2, x, "reopened", pk)
					}
					for _, x := range e.M.Versions() {
						if b := before[x]; b != nil {
							a, err := observeVersion(e, e.T, x, pl.Universe)
							if err != nil {
								e.Bad("rollback|live|kept-version-unreadable", "after %s: %v", op, err)
							} else if d := b.diff(a); d != "" {
								e.Bad("rollback|live|kept-version-changed", "%s altered version %d: %s", op, x, d)
							}
							a2, err := observeVersion(e, h2, x, pl.Universe)
							if err != nil {
								e.Bad("rollback|reopened|kept-version-unreadable", "after %s and reopen: %v", op, err)
							} else if d := b.diff(a2); d != "" {
								e.Bad("rollback|reopened|kept-version-changed", "%s altered version %d (seen after reopen): %s", op, x, d)
							}
							c.Obs("kept_versions_compared", 1)
						}
					}
					// (re)build the twin
					if twin != nil {
						twin.Close()
						twin = nil
					}
					for x := range writes {
						if x > v {
							delete(writes, x)
						}
					}
					if t, err := buildTwin(c, e, writes, chainStart, v); err == nil {
						twin = t
						c.Obs("twins_built", 1)
					} else {
						c.Obs("twin_build_skipped", 1)
					}
				}
				// every step: M/R checks on the main tree
				e.CheckAllVersions(pl.Universe, 4)
				checkBookkeeping(e, e.T, "live", pk, false)
				checkHashes(e, "main", true)
				if erased > 0 {
					e.AuditStorage(e.Cfg.Fast)
					checkFastCoherence(e, pl.Universe)
				}
				// twin lock-step
				if twin != nil && !isRB {
					top := op
					tout := twin.Apply(top, false)
					if twin.Dead {
						e.Bad("rollback|twin|diverged-exec", "the twin (history that simply ended at the rollback target) could not execute %s although the rolled-back tree did", op)
						twin.Close()
						twin = nil
					} else {
						if (tout.Err == nil) != (out.Err == nil) || tout.Version != out.Version || !bytes.Equal(tout.Hash, out.Hash) || tout.Updated != out.Updated || tout.Removed != out.Removed || !bytes.Equal(tout.Val, out.Val) {
							e.Bad("rollback|twin|outcome", "%s: rolled-back tree returned (err=%v ver=%d hash=%x upd=%v rm=%v val=%q), twin returned (err=%v ver=%d hash=%x upd=%v rm=%v val=%q)",
								op, out.Err, out.Version, out.Hash, out.Updated, out.Removed, out.Val, tout.Err, tout.Version, tout.Hash, tout.Updated, tout.Removed, tout.Val)
						}
						if a, b := e.T.WorkingHash(), twin.T.WorkingHash(); !bytes.Equal(a, b) {
							e.Bad("rollback|twin|working-hash", "after %s working hash %x differs from the twin's %x", op, a, b)
						}
						if a, b := fmt.Sprint(e.T.AvailableVersions()), fmt.Sprint(twin.T.AvailableVersions()); a != b {
							e.Bad("rollback|twin|available", "after %s AvailableVersions %s differs from the twin's %s", op, a, b)
						}
						twin.CheckAllVersions(pl.Universe, 2)
						c.Obs("twin_steps_compared", 1)
						if op.Kind == "save" || op.Kind == "delto" {
							ra, _ := seam.Dump(e.W.Inner)
							rb, _ := seam.Dump(twin.W.Inner)
							if ra.Equal(rb) {
								c.Obs("twin_raw_store_equal", 1)
							} else {
								c.Obs("twin_raw_store_differs", 1)
							}
						}
					}
				}
				c.State(e.AbstractState())
				if len(c.Res.Violations) > 0 {
					break
				}
			}
			c.Obs("steps", e.Step)
			c.Res.Nontrivial = erased >= 1 && commitsAfter >= 1
		},
		Floor: func(obs map[string]int, evals, nontrivial int) string {
			if obs["rollbacks_that_erased"] < 200 || obs["twin_steps_compared"] < 2000 || obs["rollbacks_discard"] < 200 || obs["kept_versions_compared"] < 500 {
				return fmt.Sprintf("too few observations: %v", obs)
			}
			return ""
		},
	})
}
