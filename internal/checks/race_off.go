//go:build !race

package checks

const raceEnabled = false
