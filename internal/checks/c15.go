package checks

import (
	"bytes"
	"fmt"
	"math/rand"
	"sort"

	"github.com/cosmos/iavl"

	"verif/internal/fw"
	"verif/internal/model"
	"verif/internal/v1x"
)

type csEntry struct {
	del bool
	k   string
	v   string
}

func expectedChangeSet(m *model.Model, v int64, prev model.Snap) []csEntry {
	cur := m.Vers[v]
	var out []csEntry
	seen := map[string]bool{}
	for k := range m.Written[v] {
		if val, ok := cur[k]; ok {
			out = append(out, csEntry{false, k, val})
			seen[k] = true
		}
	}
	for k := range prev {
		if _, ok := cur[k]; !ok {
			out = append(out, csEntry{true, k, ""})
		}
	}
	sort.Slice(out, func(i, j int) bool { return out[i].k < out[j].k })
	return out
}

func csFromIavl(cs *iavl.ChangeSet) []csEntry {
	var out []csEntry
	for _, p := range cs.Pairs {
		out = append(out, csEntry{p.Delete, string(p.Key), string(p.Value)})
	}
	return out
}

func csEqual(a, b []csEntry) bool {
	if len(a) != len(b) {
		return false
	}
	for i := range a {
		if a[i] != b[i] {
			return false
		}
	}
	return true
}

func csStr(a []csEntry) string {
	var b bytes.Buffer
	for _, x := range a {
		if x.del {
			fmt.Fprintf(&b, "del(%q) ", x.k)
		} else {
			fmt.Fprintf(&b, "set(%q=%q) ", x.k, x.v)
		}
	}
	return b.String()
}

// opsNormalForm converts the original writes of a version into change-set entries, or returns
// false if they are not already in normal form (ascending keys, one op per key, removals only
// of keys present in the previous version).
func opsNormalForm(ops []v1x.Op, prev model.Snap) ([]csEntry, bool) {
	var out []csEntry
	last := ""
	for i, o := range ops {
		k := string(o.K)
		if i > 0 && k <= last {
			return nil, false
		}
		last = k
		switch o.Kind {
		case "set":
			if o.V == nil {
				return nil, false
			}
			out = append(out, csEntry{false, k, string(o.V)})
		case "rm":
			if _, ok := prev[k]; !ok {
				return nil, false
			}
			out = append(out, csEntry{true, k, ""})
		default:
			return nil, false
		}
	}
	return out, true
}

// bigVersionPlan: version 1 holds 2200-3000 keys; version 2 touches every key of a contiguous run of
// 1100-2000 of them (rewrites, identical rewrites, removals) and inserts new keys into the run, so
// that no untouched subtree lies between the changed leaves; version 3 is small.
func bigVersionPlan(rng *rand.Rand) *v1x.Plan {
	pl := &v1x.Plan{Cfg: v1x.Config{Cache: []int{0, 100, 10000}[rng.Intn(3)], Fast: rng.Intn(2) == 0, Backend: "mem"}}
	n := 2200 + rng.Intn(800)
	key := func(i int) []byte { return []byte(fmt.Sprintf("key-%05d", i*2)) }
	for i := 0; i < n; i++ {
		pl.Universe = append(pl.Universe, key(i))
		pl.Ops = append(pl.Ops, v1x.Op{Kind: "set", K: key(i), V: []byte(fmt.Sprintf("v1-%d", i))})
	}
	pl.Ops = append(pl.Ops, v1x.Op{Kind: "save"})
	lo := rng.Intn(n - 2000)
	hi := lo + 1100 + rng.Intn(900)
	for i := lo; i < hi; i++ {
		switch rng.Intn(8) {
		case 0:
			pl.Ops = append(pl.Ops, v1x.Op{Kind: "rm", K: key(i)})
		case 1:
			pl.Ops = append(pl.Ops, v1x.Op{Kind: "set", K: key(i), V: []byte(fmt.Sprintf("v1-%d", i))}) // identical rewrite
		case 2:
			nk := []byte(fmt.Sprintf("key-%05d", i*2+1)) // a new key between two old ones
			pl.Universe = append(pl.Universe, nk)
			pl.Ops = append(pl.Ops, v1x.Op{Kind: "set", K: nk, V: []byte("new")}, v1x.Op{Kind: "set", K: key(i), V: []byte(fmt.Sprintf("v2-%d", i))})
		default:
			pl.Ops = append(pl.Ops, v1x.Op{Kind: "set", K: key(i), V: []byte(fmt.Sprintf("v2-%d", i))})
		}
	}
	pl.Ops = append(pl.Ops, v1x.Op{Kind: "save"})
	for j := 0; j < 5; j++ {
		i := rng.Intn(n)
		if rng.Intn(3) == 0 {
			pl.Ops = append(pl.Ops, v1x.Op{Kind: "rm", K: key(i)})
		} else {
			pl.Ops = append(pl.Ops, v1x.Op{Kind: "set", K: key(i), V: []byte(fmt.Sprintf("v3-%d", j))})
		}
	}
	pl.Ops = append(pl.Ops, v1x.Op{Kind: "save"})
	return pl
}

func init() {
	fw.Register(&fw.Check{
		ID:    "C15",
		Level: "exploration",
		Cases: func(tier string) int { return tierN(tier, 1000, 50000) },
		Rule: "case = one history (12-50 ops quick, up to 120 thorough; 1-8 keys; several writes/removals of one key inside a version, set-then-remove, remove-then-set, identical rewrites, no-op and empty versions, a few prunes/rollbacks/reopens; 1 history in 4 is generated in normal form: ascending keys, one op per key). " +
			"1 history in 125 is three versions over 2200-3000 keys, the second of which touches every key of a contiguous run of 1100-2000 keys (rewrites, identical rewrites, removals, new keys in between). " +
			"After every commit and at the end: TraverseStateChanges over the full range and over random sub-ranges; for every delivered version whose predecessor is retained (or that is the first version ever) the change set must equal the model's net change: ascending, one entry per key, a set entry with the value for every key whose last operation in v was a Set (also when unchanged), a delete entry for every key of v-1 absent in v, nothing else, and applying it to M(v-1) gives M(v); every requested retained version in [start,end) must be delivered. " +
			"Replay: all extracted sets are applied with SaveChangeSet to an empty tree (same initial version): each call must create exactly the next version, contents must equal M(v), and the root hash must equal the original whenever the original writes were already in normal form (decided by comparing the two lists); SaveChangeSet with a removal of a missing key must fail, also when the key goes missing inside the set (two removals of one key in a row); a key that is set and then removed inside the set is not missing (such a set is applied instead of the extracted one in a quarter of the versions). " +
			"distinct = hash(config, ops); non-trivial = >=3 versions with predecessor compared incl. >=1 with a delete entry and >=1 replay.",
		Assumptions: []string{"model M (incl. per-version 'last operation was a Set' bookkeeping)", "the end-of-range convention (doc: exclusive, code: inclusive) is not asserted"},
		Run: func(c *fw.Ctx) {
			w := map[string]int{"set": 44, "rm": 20, "save": 24, "rollback": 3, "reopen": 3, "load": 0, "delto": 2, "lfo": 2, "delfrom": 0, "redo": 1}
			p := &v1x.GenParams{MinOps: 12, MaxOps: 50, W: w, MaxKeys: 8, InvalidPct: 2, Backends: []string{"mem"}, Initials: []int64{0, 0, 0, 1, 4, 64}}
			if c.Tier == "thorough" {
				p.MaxOps = 120
			}
			pl := v1x.MakePlan(c.Rng, p)
			if v1x.EmptyKeyVariant(pl, c.Index) {
				c.Obs("histories_with_the_empty_key", 1)
			}
			normal := c.Index%4 == 3
			if normal {
				pl = normalize(pl)
			}
			if c.Index%125 == 124 {
				pl = bigVersionPlan(c.Rng)
				c.Obs("histories_with_a_version_touching_a_long_run_of_keys", 1)
			}
			c.Res.Digest = fw.DigestOf(pl.Cfg, pl.Summary(1000))
			if c.Index < 2 || (normal && c.Index < 8) {
				c.Res.Sample = pl.Summary(60)
			}
			e, err := v1x.NewEnv(c, pl.Cfg)
			if err != nil {
				c.Violate(0, "exec|open|error", "%v", err)
				return
			}
			defer e.Close()
			chainStart := int64(0)
			origOps := map[int64][]v1x.Op{}
			var cur []v1x.Op
			compared, withDelete, replays := 0, 0, 0
			pruned := false
			check := func(final bool) {
				if e.Dead || e.M.Latest == 0 {
					return
				}
				it, err := e.T.GetImmutable(e.M.Latest)
				if err != nil {
					return
				}
				ranges := [][2]int64{{0, e.M.Latest + 1}}
				if final {
					ranges = append(ranges, [2]int64{e.M.First, e.M.Latest + 1}, [2]int64{e.M.First + 1, e.M.Latest + 1})
					for i := 0; i < 3; i++ {
						a := e.M.First + int64(c.Rng.Intn(int(e.M.Latest-e.M.First+1)))
						b := a + int64(c.Rng.Intn(int(e.M.Latest-a+2)))
						ranges = append(ranges, [2]int64{a, b})
					}
				}
				for _, r := range ranges {
					delivered := map[int64][]csEntry{}
					var order []int64
					err := it.TraverseStateChanges(r[0], r[1], func(v int64, cs *iavl.ChangeSet) error {
						delivered[v] = csFromIavl(cs)
						order = append(order, v)
						return nil
					})
					if err != nil {
						if r[1] > r[0] && r[1]-1 >= e.M.First {
							e.Bad("changeset|traverse|error", "TraverseStateChanges(%d,%d): %v (first=%d latest=%d)", r[0], r[1], err, e.M.First, e.M.Latest)
						}
						continue
					}
					for i := 1; i < len(order); i++ {
						if order[i] != order[i-1]+1 {
							e.Bad("changeset|traverse|order", "versions delivered out of order: %v", order)
						}
					}
					for v := r[0]; v < r[1]; v++ {
						if e.M.Exists(v) {
							if _, ok := delivered[v]; !ok {
								e.Bad("changeset|traverse|missing-version", "TraverseStateChanges(%d,%d) did not deliver retained version %d (delivered %v)", r[0], r[1], v, order)
							}
						}
					}
					for _, v := range order {
						if !e.M.Exists(v) {
							e.Bad("changeset|traverse|phantom-version", "TraverseStateChanges(%d,%d) delivered version %d which is not retained", r[0], r[1], v)
							continue
						}
						var prev model.Snap
						switch {
						case e.M.Exists(v - 1):
							prev = e.M.Vers[v-1]
						case v == chainStart && !pruned:
							prev = model.Snap{}
						default:
							continue // predecessor not retained: outside the statement
						}
						want := expectedChangeSet(e.M, v, prev)
						got := delivered[v]
						if !csEqual(got, want) {
							cls := "content"
							if len(got) < len(want) {
								cls = "missing-entry"
							} else if len(got) > len(want) {
								cls = "extra-entry"
							}
							e.Bad("changeset|extract|"+cls, "change set of version %d (range %d,%d) is %s, net change per model is %s", v, r[0], r[1], csStr(got), csStr(want))
						}
						compared++
						c.Obs("changesets_compared", 1)
						for _, x := range want {
							if x.del {
								withDelete++
								c.Obs("changesets_with_delete", 1)
								break
							}
						}
					}
				}
			}
			for _, op := range pl.Ops {
				out := e.Apply(op, false)
				if e.Dead {
					break
				}
				switch op.Kind {
				case "set", "rm":
					cur = append(cur, op)
				case "save":
					if out.Err == nil && !out.Expect.Existing {
						origOps[out.Version] = cur
						if chainStart == 0 {
							chainStart = out.Version
						}
						check(false)
					}
					if out.Err == nil {
						cur = nil
					}
				case "delto":
					// (a deletion of old versions does not touch the uncommitted writes: cur is kept)
					if out.Err == nil && op.N >= chainStart && chainStart > 0 {
						pruned = true
					}
				default:
					// (LoadVersion on a store without versions keeps the uncommitted writes)
					if out.Err == nil && !(op.Kind == "load" && e.M.Latest == 0) {
						cur = nil
					}
				}
				c.State(e.AbstractState())
				if len(c.Res.Violations) > 0 {
					break
				}
			}
			check(true)
			// ---- replay into an empty tree ----
			if !e.Dead && len(c.Res.Violations) == 0 && e.M.Latest > 0 && !pruned && e.M.First == chainStart {
				replays++
				replayChangeSets(e, chainStart, origOps)
			}
			c.Obs("steps", e.Step)
			c.Res.Nontrivial = compared >= 3 && withDelete >= 1 && replays >= 1
		},
		Floor: func(obs map[string]int, evals, nontrivial int) string {
			if obs["changesets_compared"] < 3000 || obs["changesets_with_delete"] < 300 || obs["replayed_versions"] < 500 || obs["replay_hash_compared_normal_form"] < 50 || obs["missing_key_removals_rejected"] < 50 {
				return fmt.Sprintf("too few observations: %v", obs)
			}
			return ""
		},
	})
}

// normalize rewrites a plan so that every version's writes are in normal form: ascending keys,
// one op per key, removals only of present keys.
func normalize(pl *v1x.Plan) *v1x.Plan {
	out := *pl
	out.Ops = nil
	o := v1x.NewOracle(pl.Cfg.Initial)
	var seg []v1x.Op
	flush := func() {
		last := map[string]v1x.Op{}
		for _, s := range seg {
			last[string(s.K)] = s
		}
		keys := make([]string, 0, len(last))
		for k := range last {
			keys = append(keys, k)
		}
		sort.Strings(keys)
		for _, k := range keys {
			op := last[k]
			if op.Kind == "rm" {
				if _, ok := o.M.Work[k]; !ok {
					continue
				}
			}
			if op.Kind == "set" && op.V == nil {
				continue
			}
			o.Apply(op)
			out.Ops = append(out.Ops, op)
		}
		seg = nil
	}
	for _, op := range pl.Ops {
		if op.Kind == "set" || op.Kind == "rm" {
			seg = append(seg, op)
			continue
		}
		flush()
		o.Apply(op)
		out.Ops = append(out.Ops, op)
	}
	flush()
	return &out
}

func replayChangeSets(e *v1x.Env, chainStart int64, origOps map[int64][]v1x.Op) {
	c := e.C
	src, err := e.T.GetImmutable(e.M.Latest)
	if err != nil {
		return
	}
	sets := map[int64]*iavl.ChangeSet{}
	if err := src.TraverseStateChanges(0, e.M.Latest+1, func(v int64, cs *iavl.ChangeSet) error {
		sets[v] = cs
		return nil
	}); err != nil {
		e.Bad("changeset|replay|traverse-error", "%v", err)
		return
	}
	cfg := v1x.Config{Cache: e.Cfg.Cache, Fast: e.Cfg.Fast, Backend: "mem"}
	if chainStart > 1 {
		cfg.Initial = chainStart
	}
	r, err := v1x.NewEnv(c, cfg)
	if err != nil {
		return
	}
	defer r.Close()
	allNormal := true
	for v := chainStart; v <= e.M.Latest; v++ {
		cs, ok := sets[v]
		if !ok {
			e.Bad("changeset|replay|missing-version", "no change set extracted for version %d", v)
			return
		}
		// a removal of a missing key must be rejected (tried on a throw-away basis first)
		if v == chainStart || c.Rng.Intn(3) == 0 {
			bad := &iavl.ChangeSet{Pairs: append([]*iavl.KVPair{{Delete: true, Key: []byte("\x01missing-key\x01")}}, cs.Pairs...)}
			if _, err := r.T.SaveChangeSet(bad); err == nil {
				e.Bad("changeset|save|missing-key-accepted", "SaveChangeSet accepted the removal of a missing key (version %d)", v)
				return
			}
			r.T.Rollback()
			c.Obs("missing_key_removals_rejected", 1)
		}
		// change sets that are not in normal form (one key in several pairs) are applied pair by pair:
		// the second of two removals of one key removes a missing key and must be rejected ...
		var present []string
		if v > chainStart {
			present = e.M.Vers[v-1].Keys()
		}
		if len(present) > 0 && c.Rng.Intn(3) == 0 {
			k := []byte(present[c.Rng.Intn(len(present))])
			pre := []*iavl.KVPair{{Delete: true, Key: k}, {Delete: true, Key: k}}
			if c.Rng.Intn(2) == 0 {
				pre = []*iavl.KVPair{{Delete: true, Key: k}, {Key: k, Value: []byte("again")}, {Delete: true, Key: k}, {Delete: true, Key: k}}
			}
			if _, err := r.T.SaveChangeSet(&iavl.ChangeSet{Pairs: append(pre, cs.Pairs...)}); err == nil {
				e.Bad("changeset|save|missing-key-accepted", "SaveChangeSet accepted a change set whose pairs remove key %q twice in a row (version %d): the second removal is the removal of a missing key", k, v)
				return
			}
			r.T.Rollback()
			c.Obs("double_removals_rejected", 1)
		}
		// ... and a key that is set and then removed inside the set is not a missing key
		toApply := cs
		if c.Rng.Intn(4) == 0 {
			fresh := []byte(fmt.Sprintf("\x01set-then-removed-%d\x01", v))
			toApply = &iavl.ChangeSet{Pairs: append([]*iavl.KVPair{{Key: fresh, Value: []byte("x")}, {Delete: true, Key: fresh}}, cs.Pairs...)}
			allNormal = false // (the shape of the tree may differ from here on)
			c.Obs("sets_applied_with_a_set_then_removed_key", 1)
		}
		nv, err := r.T.SaveChangeSet(toApply)
		if err != nil {
			e.Bad("changeset|save|error", "SaveChangeSet of the extracted set of version %d (%s): %v", v, csStr(csFromIavl(toApply)), err)
			return
		}
		if nv != v {
			e.Bad("changeset|save|version", "SaveChangeSet created version %d, want exactly the next version %d", nv, v)
			return
		}
		lv, _ := r.T.GetLatestVersion()
		if lv != v {
			e.Bad("changeset|save|not-one-version", "after SaveChangeSet the latest version is %d, want %d", lv, v)
		}
		it, err := r.T.GetImmutable(v)
		if err != nil {
			e.Bad("changeset|replay|unreadable", "replayed version %d: %v", v, err)
			return
		}
		var gk, gv []string
		it.Iterate(func(k, val []byte) bool { gk = append(gk, string(k)); gv = append(gv, string(val)); return false })
		snap := e.M.Vers[v]
		keys := snap.Keys()
		same := len(gk) == len(keys)
		for i := 0; same && i < len(keys); i++ {
			same = gk[i] == keys[i] && gv[i] == snap[keys[i]]
		}
		if !same {
			e.Bad("changeset|replay|contents", "replaying change sets up to version %d gives %q=%q, the original holds %v", v, gk, gv, snap)
			return
		}
		c.Obs("replayed_versions", 1)
		var prev model.Snap = model.Snap{}
		if v > chainStart {
			prev = e.M.Vers[v-1]
		}
		if nf, ok := opsNormalForm(origOps[v], prev); allNormal && ok && csEqual(nf, csFromIavl(cs)) {
			if !bytes.Equal(it.Hash(), e.R.Hashes[v]) {
				e.Bad("changeset|replay|hash", "version %d was written in normal form, but the replayed root hash %x differs from the original %x", v, it.Hash(), e.R.Hashes[v])
				return
			}
			c.Obs("replay_hash_compared_normal_form", 1)
		} else {
			// once a version is not in normal form the later trees may differ in shape: stop comparing hashes
			allNormal = false
		}
	}
}
