package checks

import (
	"bytes"
	"fmt"
	"math/rand"
	"sort"

	corestore "cosmossdk.io/core/store"
	"github.com/cosmos/iavl"

	"verif/internal/fw"
	"verif/internal/model"
	"verif/internal/v1x"
)

// boundSet returns the bound candidates for a state: nil, empty, stored keys, neighbours,
// prefixes, extensions, below-min, above-max.
func boundSet(universe [][]byte, snaps ...model.Snap) [][]byte {
	seen := map[string]bool{}
	out := [][]byte{nil, {}}
	add := func(k []byte) {
		if k == nil || len(k) == 0 || seen[string(k)] {
			return
		}
		seen[string(k)] = true
		out = append(out, append([]byte(nil), k...))
	}
	var keys [][]byte
	keys = append(keys, universe...)
	for _, s := range snaps {
		for k := range s {
			keys = append(keys, []byte(k))
		}
	}
	for _, k := range keys {
		add(k)
		add(append(append([]byte(nil), k...), 0))
		if len(k) > 1 {
			add(k[:len(k)-1])
		}
		if len(k) == 0 {
			continue // the empty key: its only neighbour by bytes is {0}, added above
		}
		// predecessor / successor by last byte
		p := append([]byte(nil), k...)
		if p[len(p)-1] > 0 {
			p[len(p)-1]--
			add(p)
		}
		s := append([]byte(nil), k...)
		if s[len(s)-1] < 0xff {
			s[len(s)-1]++
			add(s)
		}
	}
	add([]byte{0})
	add([]byte{0xff, 0xff, 0xff, 0xff})
	return out
}

func expectRange(snap model.Snap, start, end []byte, asc, inclusive bool) []kvp {
	var out []kvp
	for _, k := range snap.Keys() {
		kb := []byte(k)
		if start != nil && bytes.Compare(kb, start) < 0 {
			continue
		}
		if end != nil {
			c := bytes.Compare(kb, end)
			if c > 0 || (c == 0 && !inclusive) {
				continue
			}
		}
		out = append(out, kvp{kb, []byte(snap[k])})
	}
	if !asc {
		for i, j := 0, len(out)-1; i < j; i, j = i+1, j-1 {
			out[i], out[j] = out[j], out[i]
		}
	}
	return out
}

func bstr(b []byte) string {
	if b == nil {
		return "nil"
	}
	return fmt.Sprintf("%q", b)
}

// drain walks an iterator object checking the object-level contract.
func drain(e *v1x.Env, it corestore.Iterator, impl string, start, end []byte, asc bool) []kvp {
	var got []kvp
	ds, de := it.Domain()
	if !bytes.Equal(ds, start) || !bytes.Equal(de, end) {
		// Domain() is not part of the property's statement: recorded, not alarmed
		e.C.Obs("domain_differs_from_bounds(recorded,not_alarmed)", 1)
	}
	guard := 0
	for it.Valid() {
		k, v := it.Key(), it.Value()
		got = append(got, kvp{append([]byte(nil), k...), append([]byte(nil), v...)})
		// Key/Value are stable until Next
		if k2 := it.Key(); !bytes.Equal(k, k2) {
			e.Bad("iter|"+impl+"|unstable-key", "Key() changed without Next")
		}
		it.Next()
		guard++
		if guard > 10000 {
			e.Bad("iter|"+impl+"|endless", "iterator over (%s,%s) did not terminate", bstr(start), bstr(end))
			break
		}
	}
	if it.Valid() || it.Valid() {
		e.Bad("iter|"+impl+"|valid-after-end", "Valid() true again after exhaustion")
	}
	if err := it.Error(); err != nil {
		e.Bad("iter|"+impl+"|error", "Error()=%v on a healthy store", err)
	}
	if err := it.Close(); err != nil {
		e.Bad("iter|"+impl+"|close-error", "Close()=%v", err)
	}
	if it.Valid() {
		e.Bad("iter|"+impl+"|valid-after-close", "Valid() true after Close")
	}
	return got
}

func checkSeq(e *v1x.Env, impl, state string, got, want []kvp, start, end []byte, asc bool) {
	if !samePairs(got, want) {
		cls := "wrong-set"
		if len(got) == len(want) {
			cls = "wrong-order-or-value"
		} else if len(got) > len(want) {
			cls = "extra-or-duplicate"
		} else {
			cls = "missing"
		}
		e.Bad("iter|"+impl+"|"+state+"|"+cls, "%s over [%s,%s) asc=%v yields %s, model says %s", impl, bstr(start), bstr(end), asc, fmtPairs(got), fmtPairs(want))
	}
	e.C.Obs("iterations_"+impl, 1)
}

// checkIterators runs all iteration interfaces of one tree state over a list of triples.
func checkIterators(e *v1x.Env, it *iavl.ImmutableTree, mt *iavl.MutableTree, snap model.Snap, state string, bounds [][]byte, rng *rand.Rand, maxTriples int) {
	type triple struct {
		s, e []byte
		asc  bool
	}
	var triples []triple
	for _, s := range bounds {
		for _, en := range bounds {
			triples = append(triples, triple{s, en, true}, triple{s, en, false})
		}
	}
	if len(triples) > maxTriples {
		rng.Shuffle(len(triples), func(i, j int) { triples[i], triples[j] = triples[j], triples[i] })
		// always keep the unbounded ones
		triples = append(triples[:maxTriples], triple{nil, nil, true}, triple{nil, nil, false})
	}
	for _, tr := range triples {
		want := expectRange(snap, tr.s, tr.e, tr.asc, false)
		class := boundClass(tr.s, tr.e)
		e.C.Obs("triples_"+class, 1)
		if mt != nil {
			itr, err := mt.Iterator(tr.s, tr.e, tr.asc)
			if err != nil {
				e.Bad("iter|mutable-iterator|create-error", "%v", err)
			} else {
				impl := "mutable-walk"
				if _, ok := itr.(*iavl.UnsavedFastIterator); ok {
					impl = "unsaved-fast"
				}
				checkSeq(e, impl, state, drain(e, itr, impl, tr.s, tr.e, tr.asc), want, tr.s, tr.e, tr.asc)
			}
		} else {
			itr, err := it.Iterator(tr.s, tr.e, tr.asc)
			if err != nil {
				e.Bad("iter|immutable-iterator|create-error", "%v", err)
			} else {
				impl := "tree-walk"
				if _, ok := itr.(*iavl.FastIterator); ok {
					impl = "fast"
				}
				checkSeq(e, impl, state, drain(e, itr, impl, tr.s, tr.e, tr.asc), want, tr.s, tr.e, tr.asc)
			}
		}
		// callbacks (tree walk)
		var got []kvp
		stopped := it.IterateRange(tr.s, tr.e, tr.asc, func(k, v []byte) bool {
			got = append(got, kvp{append([]byte(nil), k...), append([]byte(nil), v...)})
			return false
		})
		if stopped {
			e.Bad("iter|iterate-range|stopped", "IterateRange reported stopped although the callback never asked to stop")
		}
		checkSeq(e, "iterate-range", state, got, want, tr.s, tr.e, tr.asc)
		got = nil
		wantIncl := expectRange(snap, tr.s, tr.e, tr.asc, true)
		it.IterateRangeInclusive(tr.s, tr.e, tr.asc, func(k, v []byte, ver int64) bool {
			got = append(got, kvp{append([]byte(nil), k...), append([]byte(nil), v...)})
			return false
		})
		checkSeq(e, "iterate-range-inclusive", state, got, wantIncl, tr.s, tr.e, tr.asc)
		// stop request honoured at that element
		if len(want) > 0 {
			stopAt := rng.Intn(len(want))
			n := 0
			stopped := it.IterateRange(tr.s, tr.e, tr.asc, func(k, v []byte) bool {
				n++
				return n == stopAt+1
			})
			if !stopped || n != stopAt+1 {
				e.Bad("iter|iterate-range|stop", "callback asked to stop at element %d of [%s,%s) asc=%v: visited %d, stopped=%v", stopAt, bstr(tr.s), bstr(tr.e), tr.asc, n, stopped)
			}
			e.C.Obs("stop_requests", 1)
		}
	}
	// Iterate with stop (whole tree)
	all := expectRange(snap, nil, nil, true, false)
	if len(all) > 0 {
		stopAt := rng.Intn(len(all))
		n := 0
		var stopped bool
		var err error
		fn := func(k, v []byte) bool {
			n++
			return n == stopAt+1
		}
		if mt != nil {
			stopped, err = mt.Iterate(fn)
		} else {
			stopped, err = it.Iterate(fn)
		}
		if err != nil || !stopped || n != stopAt+1 {
			e.Bad("iter|iterate|stop", "Iterate callback asked to stop at element %d: visited %d, stopped=%v err=%v", stopAt, n, stopped, err)
		}
		e.C.Obs("stop_requests", 1)
	}
}

func boundClass(s, e []byte) string {
	c := func(b []byte) string {
		if b == nil {
			return "nil"
		}
		if len(b) == 0 {
			return "empty"
		}
		return "key"
	}
	cls := c(s) + "-" + c(e)
	if s != nil && e != nil && len(s) > 0 && len(e) > 0 {
		switch bytes.Compare(s, e) {
		case 0:
			cls = "equal"
		case 1:
			cls = "inverted"
		}
	}
	return cls
}

func init() {
	fw.Register(&fw.Check{
		ID:    "C08",
		Level: "exploration",
		Cases: func(tier string) int { return tierN(tier, 160, 8000) },
		Rule: "case = one history (10-40 ops; 1-8 keys incl. adjacent/prefix keys and 0x00/0xff bytes); at ~6 states per history (committed latest, working tree with uncommitted additions/updates/removals, historical versions, empty tree; fast index on and off) every iteration interface is run over (start,end,direction) triples drawn from: nil, empty non-nil, stored keys, predecessor/successor by byte, k+0x00, proper prefixes, keys only in the overlay / only on disk, below-min, above-max - all ordered pairs x 2 directions (sampled to 160 per state in quick, 600 in thorough). " +
			"Interfaces: tree-walk Iterator, FastIterator, UnsavedFastIterator, MutableTree.Iterator without index, IterateRange, IterateRangeInclusive, Iterate. Oracle: the model's keys with start<=k<end (<= for inclusive), each once, in order, with the current value; Domain(); Valid() false for good after exhaustion and after Close; Error() nil; stop requests honoured at exactly that element (visited count and return value). " +
			"Backends: MemStore, MemDB, and GoLevelDB in 1 case of 8. distinct = hash(config, ops); non-trivial = >=1 state with uncommitted changes iterated through the index+overlay iterator and >=1 historical version iterated.",
		Assumptions: []string{"model M; bound conventions: nil = unbounded, empty non-nil start = unbounded below, empty non-nil end = nothing, inverted = nothing", "Next() is never called on an invalid iterator (caller contract of corestore.Iterator)"},
		Run: func(c *fw.Ctx) {
			w := map[string]int{"set": 40, "rm": 16, "save": 20, "rollback": 3, "reopen": 6, "load": 2, "delto": 3, "lfo": 2, "delfrom": 1}
			p := &v1x.GenParams{MinOps: 10, MaxOps: 40, W: w, MaxKeys: 8, InvalidPct: 2, Backends: []string{"mem", "memdb"}, FastModes: []int{1, 1, 2, 0}}
			maxTr := 160
			if c.Tier == "thorough" {
				maxTr = 600
			}
			pl := v1x.MakePlan(c.Rng, p)
			if c.Index%8 == 5 {
				pl.Cfg.Backend = "goleveldb" // (its iterators hand out buffers that are reused by Next)
			}
			if v1x.EmptyKeyVariant(pl, c.Index) {
				c.Obs("histories_with_the_empty_key", 1)
			}
			c.Res.Digest = fw.DigestOf(pl.Cfg, pl.Summary(1000))
			if c.Index < 2 {
				c.Res.Sample = pl.Summary(60)
			}
			e, err := v1x.NewEnv(c, pl.Cfg)
			if err != nil {
				c.Violate(0, "exec|open|error", "%v", err)
				return
			}
			defer e.Close()
			// choose ~6 steps at which the full battery runs
			pick := map[int]bool{}
			for i := 0; i < 6; i++ {
				pick[c.Rng.Intn(len(pl.Ops))] = true
			}
			pick[len(pl.Ops)-1] = true
			for i, op := range pl.Ops {
				e.Apply(op, false)
				if e.Dead {
					break
				}
				if !pick[i] {
					continue
				}
				var latest model.Snap
				if e.M.Latest > 0 {
					latest = e.M.Vers[e.M.Latest]
				}
				bounds := boundSet(pl.Universe, e.M.Work, latest)
				state := "work-clean"
				if e.M.Dirty {
					state = "work-dirty"
				}
				if len(e.M.Work) == 0 {
					state += "-empty"
				}
				checkIterators(e, e.T.ImmutableTree, e.T, e.M.Work, state, bounds, c.Rng, maxTr)
				c.Obs("states_"+state, 1)
				vs := e.M.Versions()
				sort.Slice(vs, func(a, b int) bool { return vs[a] > vs[b] })
				for j, v := range vs {
					if j >= 3 {
						break
					}
					it, err := e.T.GetImmutable(v)
					if err != nil {
						e.Bad("iter|getimmutable|error", "%v", err)
						continue
					}
					st := "historical"
					if v == e.M.Latest {
						st = "latest"
					}
					checkIterators(e, it, nil, e.M.Vers[v], st, boundSet(pl.Universe, e.M.Vers[v]), c.Rng, maxTr/2)
					c.Obs("states_"+st, 1)
				}
				c.State(e.AbstractState())
				if len(c.Res.Violations) > 0 {
					break
				}
			}
			c.Obs("steps", e.Step)
			c.Res.Nontrivial = c.Res.Obs["iterations_unsaved-fast"] > 0 && c.Res.Obs["states_historical"] > 0 && c.Res.Obs["states_work-dirty"] > 0
		},
		Floor: func(obs map[string]int, evals, nontrivial int) string {
			for _, k := range []string{"iterations_tree-walk", "iterations_fast", "iterations_unsaved-fast", "iterations_mutable-walk", "iterations_iterate-range", "iterations_iterate-range-inclusive", "stop_requests", "triples_inverted", "triples_equal", "triples_nil-nil", "triples_empty-key", "triples_key-empty", "states_work-dirty", "states_historical"} {
				if obs[k] < 50 {
					return fmt.Sprintf("observation %s=%d below floor 50", k, obs[k])
				}
			}
			return ""
		},
	})
}
