package checks

import (
	"bytes"
	"fmt"
	"sort"
	"strings"
	"time"

	"github.com/cosmos/iavl"

	"verif/internal/fw"
	"verif/internal/model"
	"verif/internal/seam"
	"verif/internal/v1x"
)

// vstate is the observable state of a store: retained versions with contents and hashes.
type vstate struct {
	vers   []int64
	snaps  map[int64]model.Snap
	hashes map[int64][]byte
}

func captureState(e *v1x.Env) *vstate {
	s := &vstate{snaps: map[int64]model.Snap{}, hashes: map[int64][]byte{}}
	for _, v := range e.M.Versions() {
		s.vers = append(s.vers, v)
		s.snaps[v] = e.M.Vers[v]
		s.hashes[v] = e.R.Hashes[v]
	}
	return s
}

func (s *vstate) has(v int64) bool { _, ok := s.snaps[v]; return ok }

func versStr(v []int64) string { return fmt.Sprint(v) }

// writeClasses summarises a list of physical writes by key class.
func writeClasses(ws []seam.Write, newVersion int64) string {
	set := map[string]bool{}
	for _, w := range ws {
		for _, o := range w.Ops {
			cls := "other"
			switch {
			case len(o.K) == 13 && o.K[0] == 's':
				ver := int64(0)
				for _, b := range o.K[1:9] {
					ver = ver<<8 | int64(b)
				}
				nonce := uint32(o.K[9])<<24 | uint32(o.K[10])<<16 | uint32(o.K[11])<<8 | uint32(o.K[12])
				switch {
				case o.Del && nonce == 1:
					cls = "del-root"
				case o.Del:
					cls = "del-node"
				case nonce == 0:
					cls = "set-rekeyed-root"
				case nonce == 1 && ver == newVersion:
					cls = "set-new-root"
				case ver == newVersion:
					cls = "set-new-node"
				default:
					cls = "set-node"
				}
			case o.K[0] == 'f' && o.Del:
				cls = "del-fast"
			case o.K[0] == 'f':
				cls = "set-fast"
			case o.K[0] == 'm':
				cls = "set-label"
			}
			set[cls] = true
		}
	}
	var l []string
	for k := range set {
		l = append(l, k)
	}
	sort.Strings(l)
	if len(l) == 0 {
		return "-"
	}
	return strings.Join(l, ",")
}

// cutSpec describes one interrupted operation.
type cutSpec struct {
	kind     string // save delto lfo fastbuild import
	op       v1x.Op
	cfg      v1x.Config
	pre      *seam.MemStore
	writes   []seam.Write
	old, new *vstate
	pending  []v1x.Op // uncommitted writes to re-apply before repeating a save
	newVer   int64
	universe [][]byte
	hist     string
	redo     func(t *iavl.MutableTree) error
	initial  int64
}

// allowedSets returns whether an available-version list is an acceptable outcome and names it.
func (cs *cutSpec) classify(avail []int64) string {
	eq := func(a, b []int64) bool {
		if len(a) != len(b) {
			return false
		}
		for i := range a {
			if a[i] != b[i] {
				return false
			}
		}
		return true
	}
	if eq(avail, cs.old.vers) {
		if eq(cs.old.vers, cs.new.vers) {
			return "same"
		}
		return "old"
	}
	if eq(avail, cs.new.vers) {
		return "new"
	}
	// multi-version deletions are sequences of per-version deletions: a contiguous suffix
	// (delto) / prefix (lfo) between old and new is a legal intermediate
	switch cs.kind {
	case "delto":
		if len(avail) > 0 && len(cs.old.vers) > 0 && avail[len(avail)-1] == cs.old.vers[len(cs.old.vers)-1] && contiguous(avail) &&
			avail[0] >= cs.old.vers[0] && len(cs.new.vers) > 0 && avail[0] <= cs.new.vers[0] {
			return "partial"
		}
	case "lfo":
		// (a version list written by the legacy library may have holes: the intermediate states of a
		// rollback are the leading parts of the OLD list that still contain the whole new list)
		if len(avail) >= len(cs.new.vers) && len(avail) <= len(cs.old.vers) && len(avail) > 0 && eq(avail, cs.old.vers[:len(avail)]) &&
			eq(cs.new.vers, cs.old.vers[:len(cs.new.vers)]) {
			return "partial"
		}
	}
	return ""
}

func contiguous(v []int64) bool {
	for i := 1; i < len(v); i++ {
		if v[i] != v[i-1]+1 {
			return false
		}
	}
	return true
}

func toInt64(a []int) []int64 {
	out := make([]int64, len(a))
	for i, x := range a {
		out[i] = int64(x)
	}
	return out
}

// readVersion reads a version on handle t through walk / fast / iteration paths.
func readVersionAllPaths(t *iavl.MutableTree, v int64, universe [][]byte, snap model.Snap) (hash []byte, problem string) {
	it, err := t.GetImmutable(v)
	if err != nil {
		return nil, fmt.Sprintf("GetImmutable(%d): %v", v, err)
	}
	hash = it.Hash()
	var wk, wv []string
	it.IterateRange(nil, nil, true, func(k, val []byte) bool { wk = append(wk, string(k)); wv = append(wv, string(val)); return false })
	keys := snap.Keys()
	same := len(wk) == len(keys)
	for i := 0; same && i < len(keys); i++ {
		same = wk[i] == keys[i] && wv[i] == snap[keys[i]]
	}
	if !same {
		return hash, fmt.Sprintf("tree walk of version %d yields %q=%q, expected %v", v, wk, wv, snap)
	}
	var ik, iv []string
	itr, err := it.Iterator(nil, nil, true)
	if err != nil {
		return hash, fmt.Sprintf("Iterator(%d): %v", v, err)
	}
	for ; itr.Valid(); itr.Next() {
		ik = append(ik, string(itr.Key()))
		iv = append(iv, string(itr.Value()))
	}
	itr.Close()
	if fmt.Sprint(ik) != fmt.Sprint(wk) || fmt.Sprint(iv) != fmt.Sprint(wv) {
		return hash, fmt.Sprintf("Iterator of version %d yields %q=%q, tree walk %q=%q", v, ik, iv, wk, wv)
	}
	for _, k := range v1x.Probes(universe, snap) {
		got, err := it.Get(k)
		want, present := snap[string(k)]
		if err != nil || (got != nil) != present || (present && string(got) != want) {
			return hash, fmt.Sprintf("Get(%q) at version %d = (%q,%v), expected %q (present=%v)", k, v, got, err, want, present)
		}
		gv, err := t.GetVersioned(k, v)
		if err != nil || (gv != nil) != present || (present && string(gv) != want) {
			return hash, fmt.Sprintf("GetVersioned(%q,%d) = (%q,%v), expected %q (present=%v)", k, v, gv, err, want, present)
		}
	}
	return hash, ""
}

// judgeState checks that a store is in state st (all versions readable on all paths with the
// right hashes) when opened with the given fast setting. Returns "" or a problem.
func judgeState(img *seam.MemStore, cfg v1x.Config, fast bool, st *vstate, universe [][]byte) (avail []int64, problem string, cls string) {
	c2 := cfg
	c2.Fast = fast
	c2.Cache = 0
	imgOlder := img.Clone() // (opening a handle may repair the image: the second handle gets its own copy)
	t := iavl.NewMutableTree(img, c2.Cache, !c2.Fast, iavl.NewNopLogger(), v1x.Options(v1x.Config{Flush: cfg.Flush, Initial: 0})...)
	lv, err := t.Load()
	if err != nil {
		return nil, fmt.Sprintf("Load() fails: %v", err), "load-fails"
	}
	avail = toInt64(t.AvailableVersions())
	if len(avail) > 0 && lv != avail[len(avail)-1] {
		return avail, fmt.Sprintf("Load() returned %d but AvailableVersions is %v", lv, avail), "latest-mismatch"
	}
	if st == nil {
		return avail, "", ""
	}
	for _, v := range avail {
		if !t.VersionExists(v) {
			return avail, fmt.Sprintf("version %d is listed but VersionExists is false", v), "listed-not-existing"
		}
		snap, ok := st.snaps[v]
		if !ok {
			return avail, fmt.Sprintf("version %d is available but belongs to neither the state before nor after", v), "unknown-version"
		}
		hash, p := readVersionAllPaths(t, v, universe, snap)
		if p != "" {
			return avail, p, "version-unreadable-or-wrong"
		}
		if !bytes.Equal(hash, st.hashes[v]) {
			return avail, fmt.Sprintf("version %d has hash %x, expected %x", v, hash, st.hashes[v]), "hash"
		}
	}
	// a handle opened at an OLDER version must serve every version (in particular the latest one,
	// through GetImmutable / GetVersioned) just as well
	if len(avail) >= 2 {
		t2 := iavl.NewMutableTree(imgOlder, c2.Cache, !c2.Fast, iavl.NewNopLogger(), v1x.Options(v1x.Config{Flush: cfg.Flush, Initial: 0})...)
		if _, err := t2.LoadVersion(avail[0]); err != nil {
			return avail, fmt.Sprintf("LoadVersion(%d) (oldest available) fails: %v", avail[0], err), "load-older-fails"
		}
		for _, v := range avail {
			hash, p := readVersionAllPaths(t2, v, universe, st.snaps[v])
			if p != "" {
				return avail, fmt.Sprintf("through a handle loaded at version %d: %s", avail[0], p), "version-unreadable-or-wrong-from-older-handle"
			}
			if !bytes.Equal(hash, st.hashes[v]) {
				return avail, fmt.Sprintf("through a handle loaded at version %d: version %d has hash %x, expected %x", avail[0], v, hash, st.hashes[v]), "hash"
			}
		}
	}
	// without any version the loaded tree is empty on every read path
	if len(avail) == 0 {
		var gk []string
		t.Iterate(func(k, val []byte) bool { gk = append(gk, string(k)); return false })
		for _, asc := range []bool{true, false} {
			if it, err := t.Iterator(nil, nil, asc); err == nil {
				for ; it.Valid(); it.Next() {
					gk = append(gk, string(it.Key()))
				}
				it.Close()
			}
			if it, err := t.ImmutableTree.Iterator(nil, nil, asc); err == nil {
				for ; it.Valid(); it.Next() {
					gk = append(gk, string(it.Key()))
				}
				it.Close()
			}
		}
		for _, k := range universe {
			if got, err := t.Get(k); err != nil || got != nil {
				gk = append(gk, string(k))
			}
		}
		if len(gk) > 0 || t.Size() != 0 {
			return avail, fmt.Sprintf("the store has no version, but the loaded (empty) tree yields keys %q on Iterate / Iterator / Get (Size=%d)", gk, t.Size()), "phantom-keys-without-version"
		}
	}
	// the working tree of the loaded handle equals the latest version
	if len(avail) > 0 {
		latest := st.snaps[avail[len(avail)-1]]
		var gk, gv []string
		t.Iterate(func(k, val []byte) bool { gk = append(gk, string(k)); gv = append(gv, string(val)); return false })
		keys := latest.Keys()
		same := len(gk) == len(keys)
		for i := 0; same && i < len(keys); i++ {
			same = gk[i] == keys[i] && gv[i] == latest[keys[i]]
		}
		if !same {
			return avail, fmt.Sprintf("Iterate on the loaded tree yields %q=%q, latest version holds %v", gk, gv, latest), "loaded-tree-wrong"
		}
		for _, k := range v1x.Probes(universe, latest) {
			got, err := t.Get(k)
			want, present := latest[string(k)]
			if err != nil || (got != nil) != present || (present && string(got) != want) {
				return avail, fmt.Sprintf("Get(%q) on the loaded tree = (%q,%v), expected %q (present=%v)", k, got, err, want, present), "loaded-tree-wrong"
			}
		}
	}
	return avail, "", ""
}

// union state: every version of old and new (they agree on common versions unless the op rewrote one)
func mergeStates(a, b *vstate) *vstate {
	m := &vstate{snaps: map[int64]model.Snap{}, hashes: map[int64][]byte{}}
	for _, s := range []*vstate{a, b} {
		for _, v := range s.vers {
			m.snaps[v] = s.snaps[v]
			m.hashes[v] = s.hashes[v]
		}
	}
	return m
}

// enumerateCuts judges every cut of one recorded operation.
func enumerateCuts(c *fw.Ctx, cs *cutSpec) {
	m := len(cs.writes)
	if m == 0 {
		return
	}
	c.Obs("ops_interrupted_"+cs.kind, 1)
	if m >= 2 {
		c.Obs("ops_multi_write_"+cs.kind, 1)
	}
	img := cs.pre.Clone()
	for k := 0; k <= m; k++ {
		if k > 0 {
			img.ApplyOps(cs.writes[k-1].Ops)
		}
		phase := "done=" + writeClasses(cs.writes[:k], cs.newVer) + ";todo=" + writeClasses(cs.writes[k:], cs.newVer)
		where := fmt.Sprintf("cut %d/%d of %s {%s} [%s] after: %s", k, m, cs.op, cs.cfg, phase, cs.hist)
		c.Obs("cuts", 1)
		c.Obs("cuts_"+cs.kind, 1)
		union := mergeStates(cs.old, cs.new)
		if cs.kind == "lfo" || cs.kind == "save" {
			// the op rewrites / creates versions: judge against old first, then new
			union = nil
		}
		outcome := ""
		for _, fast := range []bool{cs.cfg.Fast, !cs.cfg.Fast} {
			avail, problem, pcls := judgeState(img.Clone(), cs.cfg, fast, nil, cs.universe)
			if problem != "" {
				c.Violate(k, "cut|"+cs.kind+"|"+pcls+"|"+phase, "%s (opened with fast=%v): %s", where, fast, problem)
				outcome = "bad"
				break
			}
			cls := cs.classify(avail)
			if cls == "" {
				c.Violate(k, "cut|"+cs.kind+"|version-set-mixture|"+phase, "%s (opened with fast=%v): available versions %v are neither the state before %v nor after %v", where, fast, avail, cs.old.vers, cs.new.vers)
				outcome = "bad"
				break
			}
			st := union
			if st == nil {
				if cls == "new" {
					st = cs.new
				} else {
					st = mergeStates(cs.new, cs.old) // old wins on common versions
				}
			}
			_, problem, pcls = judgeState(img.Clone(), cs.cfg, fast, st, cs.universe)
			if problem != "" {
				c.Violate(k, "cut|"+cs.kind+"|"+pcls+"|"+phase, "%s (opened with fast=%v, version set looks like the %s state): %s", where, fast, cls, problem)
				outcome = "bad"
				break
			}
			outcome = cls
		}
		if outcome == "bad" {
			continue
		}
		c.Obs("cut_outcome_"+cs.kind+"_"+outcome, 1)
		// repeat the interrupted operation from the reopened store (a commit / import that is
		// already complete is not repeated: the application sees the new version and moves on)
		if (cs.kind == "save" || cs.kind == "import") && outcome == "new" {
			if _, problem, pcls := judgeStateExact(img.Clone(), cs.cfg, cs.new, cs.universe); problem != "" {
				c.Violate(k, "cut|"+cs.kind+"|complete-"+pcls+"|"+phase, "%s: the operation looks complete but the store differs from the crash-free result: %s", where, problem)
			}
			continue
		}
		retry := img.Clone()
		t := iavl.NewMutableTree(retry, cs.cfg.Cache, !cs.cfg.Fast, iavl.NewNopLogger(), v1x.Options(v1x.Config{Flush: cs.cfg.Flush, Sync: cs.cfg.Sync, Initial: cs.initial})...)
		if cs.kind != "import" {
			if _, err := t.Load(); err != nil {
				c.Violate(k, "cut|"+cs.kind+"|retry-load-fails|"+phase, "%s: Load() before repeating the operation: %v", where, err)
				continue
			}
		}
		if err := cs.redo(t); err != nil {
			c.Violate(k, "cut|"+cs.kind+"|retry-fails|"+phase, "%s: repeating the interrupted operation fails: %v", where, err)
			continue
		}
		if _, problem, pcls := judgeStateExact(retry, cs.cfg, cs.new, cs.universe); problem != "" {
			c.Violate(k, "cut|"+cs.kind+"|retry-"+pcls+"|"+phase, "%s: after repeating the operation the store differs from the crash-free result: %s", where, problem)
			continue
		}
		c.Obs("retries_ok", 1)
	}
}

// judgeStateExact: the store must show exactly state st.
func judgeStateExact(img *seam.MemStore, cfg v1x.Config, st *vstate, universe [][]byte) ([]int64, string, string) {
	for _, fast := range []bool{cfg.Fast, !cfg.Fast} {
		avail, problem, pcls := judgeState(img.Clone(), cfg, fast, st, universe)
		if problem != "" {
			return avail, problem, pcls
		}
		if versStr(avail) != versStr(st.vers) {
			return avail, fmt.Sprintf("available versions %v, crash-free result has %v", avail, st.vers), "version-set"
		}
	}
	return nil, "", ""
}

func init() {
	fw.Register(&fw.Check{
		ID:    "C05",
		Level: "fault_enumeration",
		Cases: func(tier string) int { return tierN(tier, 240, 10000) },
		Rule: "case = one history (12-40 ops; 1-8 keys, values up to 600 bytes; flush thresholds 150/300/800/default so that one logical operation is several physical batch writes; fast index on/off). Every SaveVersion, DeleteVersionsTo, LoadVersionForOverwriting, first-time fast-index build on open, (1 case in 4) an import commit and (1 case in 60) an import of >10000 nodes with its background batch writes delayed at the seam is executed once over the recording storage wrapper; for EVERY k in 0..m the image 'state before + first k physical writes' is materialised and judged: " +
			"a fresh tree (fresh caches; same and opposite fast-index setting) must Load(); its available versions must be the set before or after the operation (for multi-version deletions a contiguous intermediate is accepted and counted as 'partial'); every available version must be readable with the expected contents and root hash on tree walk, Iterator, Get (fast path where enabled) and GetVersioned - through a handle loaded at the latest version AND through one loaded at the oldest available version -, the loaded working tree must equal the latest version (and be empty on every read path when no version is left); then the interrupted operation is repeated from the reopened image (re-applying the uncommitted writes for a commit) and the result must equal the crash-free result exactly. " +
			"evaluations = histories; the counters cuts / cuts_<op> / cut_outcome_<op>_<old|new|same|partial> / retries_ok count the cut points; distinct = hash(config, ops); non-trivial = >=1 operation with >=2 physical writes (i.e. interior cuts) was enumerated.",
		Assumptions: []string{"crash model of the property: the process stops between two physical storage writes; each batch write is atomic and ordered (torn writes inside a batch and the backend's own durability are out of scope)", "M/R define the states before and after"},
		Run: func(c *fw.Ctx) {
			w := map[string]int{"set": 38, "rm": 12, "save": 22, "rollback": 2, "reopen": 6, "load": 0, "delto": 10, "lfo": 5, "delfrom": 0}
			p := &v1x.GenParams{MinOps: 12, MaxOps: 40, W: w, MaxKeys: 8, InvalidPct: 0, Backends: []string{"mem"}, Initials: []int64{0, 0, 1, 6},
				BigValues: true, Flushes: []int{150, 150, 300, 800, 0}}
			pl := v1x.MakePlan(c.Rng, p)
			c.Res.Digest = fw.DigestOf(pl.Cfg, pl.Summary(1000))
			if c.Index < 2 {
				c.Res.Sample = pl.Summary(60)
			}
			e, err := v1x.NewEnv(c, pl.Cfg)
			if err != nil {
				c.Violate(0, "exec|open|error", "%v", err)
				return
			}
			defer e.Close()
			var pending []v1x.Op
			multi := 0
			for _, op := range pl.Ops {
				interesting := op.Kind == "save" || op.Kind == "delto" || op.Kind == "lfo" || op.Kind == "reopen"
				if !interesting {
					e.Apply(op, false)
					if op.Kind == "set" || op.Kind == "rm" {
						pending = append(pending, op)
					} else if op.Kind != "delto" {
						pending = nil // rollback / load / delfrom discard the working tree
					}
					if e.Dead {
						break
					}
					continue
				}
				pre, _ := seam.Dump(e.W.Inner)
				old := captureState(e)
				cfgBefore := e.Cfg
				pend := append([]v1x.Op(nil), pending...)
				initial := int64(0)
				if e.M.Latest == 0 {
					initial = e.M.Initial
				}
				e.W.StartRecording()
				out := e.Apply(op, false)
				writes := e.W.StopRecording()
				if e.Dead {
					break
				}
				hist := e.Tail(30)
				if op.Kind != "delto" && !(op.Kind == "save" && out.Expect.Fail) {
					pending = nil
				}
				if out.Err != nil || out.Expect.Fail || out.Expect.Noop {
					continue
				}
				cs := &cutSpec{op: op, cfg: cfgBefore, pre: pre, writes: writes, old: old, new: captureState(e), universe: pl.Universe, hist: hist, initial: initial}
				switch op.Kind {
				case "save":
					if out.Expect.Existing {
						continue
					}
					cs.kind = "save"
					cs.newVer = out.Version
					wantHash := out.Expect.Hash
					cs.redo = func(t *iavl.MutableTree) error {
						for _, o := range pend {
							if o.Kind == "set" {
								if _, err := t.Set(o.K, o.V); err != nil {
									return err
								}
							} else if _, _, err := t.Remove(o.K); err != nil {
								return err
							}
						}
						h, v, err := t.SaveVersion()
						if err != nil {
							return fmt.Errorf("SaveVersion: %w", err)
						}
						if v != out.Version || !bytes.Equal(h, wantHash) {
							return fmt.Errorf("SaveVersion returned (%x,%d), the crash-free run returned (%x,%d)", h, v, wantHash, out.Version)
						}
						return nil
					}
				case "delto":
					cs.kind = "delto"
					n := op.N
					cs.redo = func(t *iavl.MutableTree) error { return t.DeleteVersionsTo(n) }
				case "lfo":
					cs.kind = "lfo"
					n := op.N
					cs.redo = func(t *iavl.MutableTree) error { return t.LoadVersionForOverwriting(n) }
				case "reopen":
					// only the first-time / forced fast index build writes anything
					cs.kind = "fastbuild"
					cs.cfg = e.Cfg
					n := op.N
					cs.redo = func(t *iavl.MutableTree) error { _, err := t.LoadVersion(n); return err }
				}
				if len(writes) >= 2 {
					multi++
				}
				enumerateCuts(c, cs)
				c.State(e.AbstractState() + fmt.Sprint(len(writes) > 1))
				if len(c.Res.Violations) > 6 {
					break
				}
			}
			// import commit
			if c.Index%4 == 0 && !e.Dead && e.M.Latest > 0 && len(c.Res.Violations) == 0 {
				multi += cutImport(c, e, pl)
			}
			if c.Index%62 == 30 && len(c.Res.Violations) == 0 {
				multi += cutBigImport(c)
			}
			c.Obs("steps", e.Step)
			c.Res.Nontrivial = multi >= 1
		},
		Floor: func(obs map[string]int, evals, nontrivial int) string {
			for _, k := range []string{"ops_multi_write_save", "ops_multi_write_delto", "ops_multi_write_lfo", "ops_multi_write_fastbuild", "ops_multi_write_import"} {
				if obs[k] < 5 {
					return fmt.Sprintf("observation %s=%d below floor 5 (no interior cuts for that operation)", k, obs[k])
				}
			}
			if obs["cuts"] < 2000 {
				return fmt.Sprintf("only %d cuts", obs["cuts"])
			}
			return ""
		},
	})
}

// cutBigImport interrupts an import of more than 10000 nodes, which writes its nodes in background
// batches: the non-sync background writes are delayed at the seam (as a slow disk would), so the
// recorded order of physical writes is the order in which the importer really waits for them.
func cutBigImport(c *fw.Ctx) int {
	be, err := v1x.NewEnv(c, v1x.Config{Backend: "mem"})
	if err != nil {
		return 0
	}
	defer be.Close()
	for i := 0; i < 5100; i++ {
		be.Apply(v1x.Op{Kind: "set", K: []byte(fmt.Sprintf("big%05d", i)), V: []byte{byte(i)}}, false)
	}
	be.Apply(v1x.Op{Kind: "save"}, false)
	if be.Dead {
		return 0
	}
	v := be.M.Latest
	it, err := be.T.GetImmutable(v)
	if err != nil {
		return 0
	}
	stream, err := exportStream(it, false)
	if err != nil {
		return 0
	}
	cfg := v1x.Config{Cache: 0, Fast: false, Backend: "mem"}
	dst := seam.NewMemStore()
	w := seam.NewWrap(dst)
	w.AsyncWriteDelay = 40 * time.Millisecond
	t := iavl.NewMutableTree(w, 0, true, iavl.NewNopLogger())
	pre := dst.Clone()
	w.StartRecording()
	if err := importStream(t, v, stream, false); err != nil {
		c.Violate(0, "cut|import|crash-free-error", "big import failed without any fault: %v", err)
		return 0
	}
	writes := w.StopRecording()
	newState := &vstate{vers: []int64{v}, snaps: map[int64]model.Snap{v: be.M.Vers[v]}, hashes: map[int64][]byte{v: be.R.Hashes[v]}}
	oldState := &vstate{snaps: map[int64]model.Snap{}, hashes: map[int64][]byte{}}
	cs := &cutSpec{kind: "import", op: v1x.Op{Kind: "import", N: v}, cfg: cfg, pre: pre, writes: writes, old: oldState, new: newState,
		universe: [][]byte{[]byte("big00000"), []byte("big02550"), []byte("big05099")},
		hist:     fmt.Sprintf("import of version %d (%d nodes, %d physical writes, background writes delayed 40ms)", v, len(stream), len(writes)), newVer: v}
	cs.redo = func(t *iavl.MutableTree) error { return importStream(t, v, stream, false) }
	enumerateCuts(c, cs)
	c.Obs("big_import_cut_enumerations", 1)
	return 1
}

// cutImport interrupts the import of the latest version into a fresh store.
func cutImport(c *fw.Ctx, e *v1x.Env, pl *v1x.Plan) int {
	v := e.M.Latest
	it, err := e.T.GetImmutable(v)
	if err != nil {
		return 0
	}
	stream, err := exportStream(it, false)
	if err != nil {
		return 0
	}
	cfg := v1x.Config{Cache: 0, Fast: c.Rng.Intn(2) == 0, Backend: "mem", Flush: []int{150, 300, 0}[c.Rng.Intn(3)]}
	dst := seam.NewMemStore()
	w := seam.NewWrap(dst)
	t := iavl.NewMutableTree(w, 0, !cfg.Fast, iavl.NewNopLogger(), v1x.Options(cfg)...)
	pre := dst.Clone()
	w.StartRecording()
	if err := importStream(t, v, stream, false); err != nil {
		c.Violate(0, "cut|import|crash-free-error", "import failed without any fault: %v", err)
		return 0
	}
	writes := w.StopRecording()
	newState := &vstate{vers: []int64{v}, snaps: map[int64]model.Snap{v: e.M.Vers[v]}, hashes: map[int64][]byte{v: e.R.Hashes[v]}}
	oldState := &vstate{snaps: map[int64]model.Snap{}, hashes: map[int64][]byte{}}
	cs := &cutSpec{kind: "import", op: v1x.Op{Kind: "import", N: v}, cfg: cfg, pre: pre, writes: writes, old: oldState, new: newState, universe: pl.Universe,
		hist: fmt.Sprintf("import of version %d (%d nodes)", v, len(stream)), newVer: v}
	cs.redo = func(t *iavl.MutableTree) error { return importStream(t, v, stream, false) }
	enumerateCuts(c, cs)
	if len(writes) >= 2 {
		return 1
	}
	return 0
}
