package checks

import (
	"bytes"
	"fmt"
	"math/rand"

	"verif/internal/fw"
	"verif/internal/ref"
	"verif/internal/v1x"
)

// poke performs a few random read-only calls (results ignored): the property says they must
// never influence a later hash.
func poke(e *v1x.Env, rng *rand.Rand, universe [][]byte) {
	if e.Dead || len(universe) == 0 {
		return
	}
	n := 1 + rng.Intn(4)
	for i := 0; i < n; i++ {
		k := universe[rng.Intn(len(universe))]
		switch rng.Intn(12) {
		case 0:
			_, _ = e.T.Get(k)
		case 1:
			_, _ = e.T.Has(k)
		case 2:
			_, _, _ = e.T.GetWithIndex(k)
		case 3:
			_, _, _ = e.T.GetByIndex(int64(rng.Intn(4)))
		case 4:
			if e.T.Size() > 0 {
				_, _ = e.T.GetProof(k)
			}
		case 5:
			if e.T.Size() > 0 { // on an empty tree GetMembershipProof dereferences a nil root; empty trees are outside C03's domain
				_, _ = e.T.GetMembershipProof(k)
			}
		case 6:
			if e.T.Size() > 0 {
				_, _ = e.T.GetNonMembershipProof(k)
			}
		case 7:
			_ = e.T.Hash()
		case 8:
			_ = e.T.WorkingHash()
		case 9:
			_, _ = e.T.Iterate(func(k, v []byte) bool { return false })
		case 10:
			if it, err := e.T.Iterator(nil, nil, rng.Intn(2) == 0); err == nil {
				for ; it.Valid(); it.Next() {
				}
				it.Close()
			}
		case 11:
			if e.M.Latest > 0 {
				v := e.M.First + int64(rng.Intn(int(e.M.Latest-e.M.First+1)))
				if it, err := e.T.GetImmutable(v); err == nil {
					_ = it.Hash()
					_, _ = it.Get(k)
					if it.Size() > 0 {
						_, _ = it.GetProof(k)
					}
				}
				_, _ = e.T.GetVersioned(k, v)
			}
		}
		e.C.Obs("readonly_calls_interleaved", 1)
	}
}

// checkHashes compares every hash the tree exposes with R.
// The monitor's own WorkingHash() call is a read-only call too: it memoises node hashes, so in the
// run with interleaved reads it is left out (working=false) - there only the randomly placed calls
// touch the working tree, otherwise the monitor would mask what it is looking for.
func checkHashes(e *v1x.Env, where string, working bool) {
	if e.Dead {
		return
	}
	if working {
		want := e.R.WorkingHash()
		if got := e.T.WorkingHash(); !bytes.Equal(got, want) {
			e.Bad("hash|"+where+"|working", "WorkingHash()=%x, reference says %x (working version %d)", got, want, e.R.WorkingVersion())
		}
	}
	if e.M.Base > 0 {
		if got := e.T.Hash(); !bytes.Equal(got, e.R.Hashes[e.M.Base]) {
			e.Bad("hash|"+where+"|last-saved", "Hash()=%x, reference says %x for version %d", got, e.R.Hashes[e.M.Base], e.M.Base)
		}
	}
	for _, v := range e.M.Versions() {
		it, err := e.T.GetImmutable(v)
		if err != nil {
			e.Bad("hash|"+where+"|getimmutable-error", "GetImmutable(%d): %v", v, err)
			continue
		}
		if got := it.Hash(); !bytes.Equal(got, e.R.Hashes[v]) {
			e.Bad("hash|"+where+"|version", "GetImmutable(%d).Hash()=%x, reference says %x", v, got, e.R.Hashes[v])
		}
		if ch, ok := e.CommitHash[v]; ok && !bytes.Equal(ch, e.R.Hashes[v]) {
			e.Bad("hash|"+where+"|commit-record", "version %d was committed with hash %x, reference says %x", v, ch, e.R.Hashes[v])
		}
		e.C.Obs("version_hashes_compared", 1)
	}
}

func runHashHistory(c *fw.Ctx, pl *v1x.Plan, withReads bool, rng *rand.Rand) (hashes [][]byte, ok bool) {
	e, err := v1x.NewEnv(c, pl.Cfg)
	if err != nil {
		c.Violate(0, "exec|open|error", "%v", err)
		return nil, false
	}
	defer e.Close()
	tag := "bare"
	if withReads {
		tag = "with-reads"
	}
	for _, op := range pl.Ops {
		if withReads {
			poke(e, rng, pl.Universe)
		}
		var wantWorking []byte
		if op.Kind == "save" && !withReads {
			wantWorking = e.R.WorkingHash()
			if got := e.T.WorkingHash(); !bytes.Equal(got, wantWorking) {
				e.Bad("hash|"+tag+"|working-before-commit", "WorkingHash() before commit = %x, reference says %x", got, wantWorking)
			}
		}
		out := e.Apply(op, false)
		if e.Dead {
			return hashes, false
		}
		if op.Kind == "save" && out.Err == nil {
			if !bytes.Equal(out.Hash, out.Expect.Hash) {
				e.Bad("hash|"+tag+"|commit", "SaveVersion() of version %d returned %x, reference says %x", out.Version, out.Hash, out.Expect.Hash)
			}
			hashes = append(hashes, out.Hash)
			c.Obs("commit_hashes_compared", 1)
		}
		checkHashes(e, tag, !withReads)
		c.State(e.AbstractState())
		if len(c.Res.Violations) > 0 {
			return hashes, false
		}
	}
	// export / import of the latest version reproduces the hash
	if e.M.Latest > 0 && c.Rng.Intn(3) == 0 {
		checkExportImportHash(e)
	}
	c.Obs("steps", e.Step)
	return hashes, true
}

func checkExportImportHash(e *v1x.Env) {
	v := e.M.Latest
	it, err := e.T.GetImmutable(v)
	if err != nil {
		return
	}
	exp, err := it.Export()
	if err != nil {
		e.Bad("hash|export|error", "Export(%d): %v", v, err)
		return
	}
	defer exp.Close()
	e2, err := v1x.NewEnv(e.C, v1x.Config{Cache: e.Cfg.Cache, Fast: e.Cfg.Fast, Backend: "mem"})
	if err != nil {
		return
	}
	defer e2.Close()
	imp, err := e2.T.Import(v)
	if err != nil {
		e.Bad("hash|import|error", "Import(%d): %v", v, err)
		return
	}
	defer imp.Close()
	for {
		n, err := exp.Next()
		if err != nil {
			break
		}
		if err := imp.Add(n); err != nil {
			e.Bad("hash|import|add-error", "Importer.Add: %v", err)
			return
		}
	}
	if err := imp.Commit(); err != nil {
		e.Bad("hash|import|commit-error", "Importer.Commit: %v", err)
		return
	}
	if got := e2.T.Hash(); !bytes.Equal(got, e.R.Hashes[v]) {
		e.Bad("hash|import|hash", "imported version %d has hash %x, reference says %x", v, got, e.R.Hashes[v])
	}
	e.C.Obs("export_import_hashes", 1)
}

func init() {
	fw.Register(&fw.Check{
		ID:    "C02",
		Level: "exploration",
		Cases: func(tier string) int { return tierN(tier, 700, 30000) },
		Rule: "case = one write history (10-45 ops quick, up to 120 thorough; incl. reopen, prune, rollback, rollback-to-version, load of older versions and re-commits; initial version unset/1/5/10/63/64/127/128/1000000; cache/fast/flush matrix) executed TWICE: bare, and with random read-only calls " +
			"(Get, Has, GetWithIndex, GetByIndex, GetProof, GetMembershipProof, GetNonMembershipProof, Hash, WorkingHash, Iterate, Iterator, reads and proofs on committed versions) interleaved before every step, including before the first commit. In both runs every SaveVersion hash, the WorkingHash before each commit and after each step, Hash(), and ImmutableTree.Hash of EVERY retained version after EVERY step are compared with the independent reference implementation R; the two runs' commit hashes are compared with each other; one history in three also exports the latest version and imports it into a fresh store (hash must match). " +
			"Every 5th case uses its first handle without an initial Load(): a prefix of 3-6 operations writes to the fresh tree, then issues LoadVersion on the store that still has no version (nothing is loaded, the working tree is kept), with or without a Rollback after it, and the planned history follows. R itself is validated in every case against golden hashes copied from the repository's tests. distinct = hash(config, ops); non-trivial = >=3 commits with >=1 removal and >=1 of {reopen, prune, rollback}.",
		Assumptions: []string{"R (internal/ref, written from docs/ without importing iavl) is the trusted definition of the IAVL+ rules; it is re-validated against the repository's golden hashes on every case"},
		Run: func(c *fw.Ctx) {
			if msg := ref.SelfTest(); msg != "" {
				c.Res.Inconcl = "reference implementation failed its golden-hash self test: " + msg
				return
			}
			c.Obs("ref_golden_selftests", 1)
			w := map[string]int{"set": 40, "rm": 16, "save": 20, "rollback": 3, "reopen": 5, "load": 3, "delto": 6, "lfo": 3, "delfrom": 1, "redo": 3}
			p := &v1x.GenParams{MinOps: 10, MaxOps: 45, W: w, MaxKeys: 12, InvalidPct: 3,
				Backends: []string{"mem"}, Initials: []int64{0, 0, 0, 1, 5, 10, 63, 64, 127, 128, 1000000}, BigValues: true}
			if c.Tier == "thorough" {
				p.MaxOps = 120
				p.MaxKeys = 24
			}
			pl := v1x.MakePlan(c.Rng, p)
			v1x.LazyPrefix(pl, c.Index)
			if v1x.EmptyKeyVariant(pl, c.Index) {
				c.Obs("histories_with_the_empty_key", 1)
			}
			c.Res.Digest = fw.DigestOf(pl.Cfg, pl.Summary(1000))
			if c.Index < 2 {
				c.Res.Sample = pl.Summary(60)
			}
			saves, rms, specials := 0, 0, 0
			for _, o := range pl.Ops {
				switch o.Kind {
				case "save":
					saves++
				case "rm":
					rms++
				case "reopen", "delto", "lfo", "rollback", "delfrom":
					specials++
				}
			}
			c.Res.Nontrivial = saves >= 3 && rms >= 1 && specials >= 1
			rng2 := rand.New(rand.NewSource(c.Rng.Int63()))
			h1, ok1 := runHashHistory(c, pl, false, rng2)
			if len(c.Res.Violations) > 0 {
				return
			}
			h2, ok2 := runHashHistory(c, pl, true, rng2)
			if ok1 && ok2 {
				same := len(h1) == len(h2)
				for i := 0; same && i < len(h1); i++ {
					same = bytes.Equal(h1[i], h2[i])
				}
				if !same {
					c.Violate(len(pl.Ops), "hash|twin|reads-changed-hash", "commit hashes differ between the bare run and the run with interleaved read-only calls: %x vs %x [%s]", h1, h2, fmt.Sprint(pl.Summary(80)))
				}
				c.Obs("twin_runs_compared", 1)
			}
		},
		Floor: func(obs map[string]int, evals, nontrivial int) string {
			if obs["commit_hashes_compared"] < 1000 || obs["version_hashes_compared"] < 5000 || obs["readonly_calls_interleaved"] < 5000 || obs["export_import_hashes"] < 20 {
				return fmt.Sprintf("too few observations: %v", obs)
			}
			return ""
		},
	})
}
