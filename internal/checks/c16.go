package checks

import (
	"bytes"
	"encoding/hex"
	"encoding/json"
	"fmt"
	"io"
	"os"
	"os/exec"
	"path/filepath"
	"sort"

	"github.com/cosmos/iavl"
	dbm "github.com/cosmos/iavl/db"
	ics23 "github.com/cosmos/ics23/go"

	"verif/internal/codec"
	"verif/internal/fw"
	"verif/internal/model"
	"verif/internal/ref"
	"verif/internal/seam"
	"verif/internal/v1x"
)

type legacyRecord struct {
	Seed     int64 `json:"seed"`
	Latest   int64 `json:"latest"`
	Versions []struct {
		Version int64       `json:"version"`
		Hash    string      `json:"hash"`
		Pairs   [][2]string `json:"pairs"`
	} `json:"versions"`
	Deleted []int64  `json:"deleted"`
	Ops     []string `json:"ops"`
}

func copyDir(src, dst string) error {
	return filepath.Walk(src, func(p string, info os.FileInfo, err error) error {
		if err != nil {
			return err
		}
		rel, _ := filepath.Rel(src, p)
		t := filepath.Join(dst, rel)
		if info.IsDir() {
			return os.MkdirAll(t, 0o755)
		}
		in, err := os.Open(p)
		if err != nil {
			return err
		}
		defer in.Close()
		out, err := os.Create(t)
		if err != nil {
			return err
		}
		defer out.Close()
		_, err = io.Copy(out, in)
		return err
	})
}

// loadLegacyTree decodes a legacy tree from raw storage with D and rebuilds it as a reference
// tree so that R can continue the history.
func loadLegacyTree(raw *v1x.Raw, hash []byte, memo map[string]*ref.Node) (*ref.Node, error) {
	if len(hash) == 0 {
		return nil, nil
	}
	if n, ok := memo[string(hash)]; ok {
		return n, nil
	}
	val, ok := raw.Legacy[string(hash)]
	if !ok {
		return nil, fmt.Errorf("legacy node %x missing", hash)
	}
	ln, err := codec.DecodeLegacyNode(hash, val)
	if err != nil {
		return nil, err
	}
	var l, r *ref.Node
	if ln.Height > 0 {
		if l, err = loadLegacyTree(raw, ln.Left, memo); err != nil {
			return nil, err
		}
		if r, err = loadLegacyTree(raw, ln.Right, memo); err != nil {
			return nil, err
		}
	}
	n := ref.NewCommitted(ln.Key, ln.Value, ln.Height, ln.Size, ln.Version, l, r)
	if got := ref.HashAt(n, ln.Version); !bytes.Equal(got, hash) {
		return nil, fmt.Errorf("legacy node %x re-hashes to %x under the reference rules", hash, got)
	}
	memo[string(hash)] = n
	return n, nil
}

func legacygenPath() string {
	if p := os.Getenv("VERIF_DIR"); p != "" {
		return filepath.Join(p, "bin", "legacygen")
	}
	return "bin/legacygen"
}

// checkVersionedProofs: every retained version (legacy ones in particular) yields proofs through
// GetVersionedProof and through GetImmutable(v).GetProof that verify against that version's hash.
func checkVersionedProofs(e *v1x.Env, universe [][]byte, maxVers int) {
	vs := e.M.Versions()
	for i := 0; i < len(vs) && i < maxVers; i++ {
		v := vs[i]
		snap := e.M.Vers[v]
		if len(snap) == 0 {
			continue
		}
		root := e.R.Hashes[v]
		for j, k := range v1x.Probes(universe, snap) {
			if j%3 != int(v)%3 || !v1x.ProofCheckable(snap, k) {
				continue
			}
			val, present := snap[string(k)]
			pr, err := e.T.GetVersionedProof(k, v)
			if err != nil {
				e.Bad("legacy|proof|getversionedproof-error", "GetVersionedProof(%q, %d) (present=%v): %v", k, v, present, err)
				return
			}
			ok := false
			if present {
				ok = ics23.VerifyMembership(ics23.IavlSpec, root, pr, k, []byte(val))
			} else {
				ok = ics23.VerifyNonMembership(ics23.IavlSpec, root, pr, k)
			}
			if !ok {
				e.Bad("legacy|proof|verify", "GetVersionedProof(%q, %d) (present=%v) does not verify against the version's root %x", k, v, present, root)
				return
			}
			e.C.Obs("versioned_proofs_verified", 1)
		}
	}
}

func init() {
	fw.Register(&fw.Check{
		ID:          "C16",
		Level:       "exploration",
		Cases:       func(tier string) int { return tierN(tier, 96, 3000) },
		CaseTimeout: 300e9,
		Rule: "case = one legacy database written by the REAL legacy library (iavl v0.20.0 from the module cache, driven by /verif/legacygen over GoLevelDB with a seeded history of 3-10 versions incl. commits without writes; legacy-side deletions none / DeleteVersion of random versions / DeleteVersionsRange so that orphan records exist and the version list can have holes) plus 4 (quick) / 10 (thorough) independent follow-up histories, each on a fresh copy of that database opened by the current library (cache 0/3/1000, fast index on/off, flush threshold 150..default): new-format commits with and without writes on the legacy root, DeleteVersionsTo below / at / above the boundary, LoadVersionForOverwriting to a legacy version, reopenings, loads of legacy versions and re-commits. " +
			"Every retained version must also yield GetVersionedProof proofs that verify under ics23 against its hash; every second successful rollback into or across the legacy range is repeated under single storage faults (the C17 enumeration on a copy of the database before the rollback). Oracles: the generator's record (contents and root hash of every surviving legacy version as reported by the legacy library) for the opening state; then the model M and the reference tree R (legacy trees are decoded from raw storage by D and must re-hash to their keys under R's rules) after every step: availability on every API, full read battery, hashes of every retained version and of every new commit. DeleteVersionsTo below the newest legacy version is modelled as the documented no-op. " +
			"distinct = hash(legacy seed, follow-up ops); non-trivial = the follow-up committed >=1 new version on top and crossed the boundary with >=1 prune or rollback.",
		Assumptions: []string{"iavl v0.20.0 + cometbft-db v0.7.0 (module cache) produce the legacy databases; their record is trusted", "legacy histories are those the 0.20 API produces over GoLevelDB without its fast index"},
		Run: func(c *fw.Ctx) {
			rng := c.Rng
			dir := filepath.Join(c.TmpDir, fmt.Sprintf("legacy-%d", c.Index))
			os.RemoveAll(dir)
			defer os.RemoveAll(dir)
			nver := 3 + rng.Intn(8)
			nkeys := 1 + rng.Intn(8)
			mode := []string{"none", "some", "range"}[rng.Intn(3)]
			seed := rng.Int63()
			out, err := exec.Command(legacygenPath(), dir, fmt.Sprint(seed), fmt.Sprint(nver), fmt.Sprint(nkeys), mode).Output()
			if err != nil {
				c.Res.Inconcl = fmt.Sprintf("legacygen failed: %v", err)
				return
			}
			var rec legacyRecord
			if err := json.Unmarshal(out, &rec); err != nil {
				c.Res.Inconcl = "legacygen output: " + err.Error()
				return
			}
			c.Obs("legacy_dbs", 1)
			c.Obs("legacy_dbs_mode_"+mode, 1)
			if c.Index < 2 {
				c.Res.Sample = map[string]any{"legacy_seed": seed, "legacy_versions": nver, "keys": nkeys, "legacy_deletions": mode, "legacy_ops": rec.Ops}
			}
			// oracle state from the record
			base := v1x.NewOracle(0)
			var universe [][]byte
			for i := 0; i < nkeys+2; i++ {
				universe = append(universe, []byte(fmt.Sprintf("k%02d", i)))
			}
			follow := 4
			if c.Tier == "thorough" {
				follow = 10
			}
			nontrivial := false
			var digests []string
			legacyNodes := map[*ref.Node]bool{}
			for f := 0; f < follow && len(c.Res.Violations) == 0; f++ {
				work := filepath.Join(c.TmpDir, fmt.Sprintf("legacy-%d-f%d", c.Index, f))
				os.RemoveAll(work)
				if err := copyDir(dir, work); err != nil {
					c.Res.Inconcl = err.Error()
					return
				}
				func() {
					defer os.RemoveAll(work)
					db, err := dbm.NewGoLevelDB("legacy", work)
					if err != nil {
						c.Res.Inconcl = err.Error()
						return
					}
					defer db.Close()
					if f == 0 {
						// decode the legacy trees once (raw storage, decoder D) for R
						raw, err := v1x.ScanRaw(db)
						if err != nil {
							c.Res.Inconcl = err.Error()
							return
						}
						memo := map[string]*ref.Node{}
						for _, vr := range rec.Versions {
							snap := model.Snap{}
							for _, p := range vr.Pairs {
								k, _ := hex.DecodeString(p[0])
								v, _ := hex.DecodeString(p[1])
								snap[string(k)] = string(v)
							}
							h, _ := hex.DecodeString(vr.Hash)
							base.M.Vers[vr.Version] = snap
							if base.M.First == 0 {
								base.M.First = vr.Version
							}
							base.M.Latest = vr.Version
							rootHash, ok := raw.LRoots[vr.Version]
							if !ok {
								c.Violate(0, "legacy|raw|root-missing", "legacy root record r<%d> missing in the database written by the legacy library", vr.Version)
								return
							}
							root, err := loadLegacyTree(raw, rootHash, memo)
							if err != nil {
								c.Res.Inconcl = "cannot rebuild the legacy tree for the reference: " + err.Error()
								return
							}
							base.R.Roots[vr.Version] = root
							base.R.Hashes[vr.Version] = h
							if len(rootHash) > 0 && !bytes.Equal(rootHash, h) {
								c.Res.Inconcl = "legacy root record differs from the hash the legacy library reported"
								return
							}
						}
						for _, n := range memo {
							legacyNodes[n] = true
						}
						base.M.Load(0)
						base.R.LoadVersion(base.M.Latest)
						c.Obs("legacy_orphan_records", raw.Orphans)
					}
					legacyLatest := base.M.Latest
					p := &v1x.GenParams{MinOps: 8, MaxOps: 30, MaxKeys: 8, InvalidPct: 4, Backends: []string{"goleveldb"},
						W: map[string]int{"set": 32, "rm": 10, "save": 24, "rollback": 2, "reopen": 6, "load": 4, "delto": 10, "lfo": 6, "delfrom": 0, "redo": 0}}
					// plan against a model in which pruning below the legacy boundary is a no-op: plan first, fix up at execution
					o := &v1x.Oracle{M: base.M.Clone(), R: base.R.Clone()}
					pl := v1x.MakePlanFrom(rng, p, o, universe)
					pl.Cfg.Initial = 0
					digests = append(digests, fw.DigestOf(pl.Summary(1000)))
					e := v1x.NewEnvOn(c, pl.Cfg, db, base.M.Clone(), base.R.Clone())
					e.Cfg.Backend = "goleveldb"
					lv, err := e.T.Load()
					if err != nil || lv != legacyLatest {
						e.Bad("legacy|open|load", "Load() on the legacy database = (%d,%v), the legacy library's latest version is %d", lv, err, legacyLatest)
						return
					}
					// opening state = the generator's record
					e.CheckAllVersions(universe, 12)
					checkBookkeeping(e, e.T, "opened", universe[0], false)
					checkHashes(e, "legacy-open", true)
					checkVersionedProofs(e, universe, 12)
					c.Obs("legacy_versions_checked", len(rec.Versions))
					newCommits, crossed := 0, 0
					// legacyTop = newest version still stored in the legacy format
					legacyTop := legacyLatest
					// legacy nodes re-saved in the new format as reference roots, by their node version
					converted := map[int64]*ref.Node{}
					// taint: the history has entered the territory of a known defect (the non-unique (v,0) key of
					// re-saved legacy roots). Nothing is reported for that alone; only if an oracle objects later
					// in this history, the objection is attributed to that cause (and the history ends).
					taint, taintWhy := "", ""
					for _, op := range pl.Ops {
						if op.Kind == "save" && e.R.Work != nil && legacyNodes[e.R.Work] && !e.M.Exists(e.M.WorkingVersion()) {
							// a commit without new nodes on a legacy root: the library re-saves that legacy node under
							// (nodeVersion, 0). Two DIFFERENT legacy nodes of the same node version collide there.
							if prev, ok := converted[e.R.Work.Version]; ok && prev != e.R.Work && taint == "" {
								taint = "legacy|reference-root|same-version-collision"
								taintWhy = fmt.Sprintf("two different legacy nodes created in legacy version %d (%q and %q) were each committed as the root of a new version without writes; both are re-saved under the storage key (%d,0)", e.R.Work.Version, prev.Key, e.R.Work.Key, e.R.Work.Version)
							}
							converted[e.R.Work.Version] = e.R.Work
						}
						if op.Kind == "lfo" && e.M.Exists(op.N) {
							stale := false
							for x := range converted {
								if x > op.N {
									stale = true
								}
							}
							if stale && taint == "" {
								// the rollback does not remove the re-saved legacy node (x,0) with x above the target;
								// version x will be committed again in the new format and pruning re-keys ITS root to (x,0)
								taint = "legacy|reference-root|stale-after-rollback"
								taintWhy = fmt.Sprintf("a legacy root re-saved under (x,0) by a commit without writes survives LoadVersionForOverwriting(%d) with x > %d; the new-format version x committed afterwards shares the key (x,0) with it once it is pruned", op.N, op.N)
							}
						}
						if op.Kind == "save" && e.M.Base != e.M.Latest && !e.M.Exists(e.M.Base+1) {
							// the legacy version list has a hole right above the loaded version: committing
							// "into the hole" below the latest version is outside every property's domain
							c.Obs("saves_into_legacy_hole_skipped", 1)
							continue
						}
						if op.Kind == "delto" && op.N < legacyTop && e.M.First <= legacyTop {
							// documented behaviour: nothing is deleted while the target is below the newest legacy version
							err := e.T.DeleteVersionsTo(op.N)
							e.Step++
							e.Log = append(e.Log, fmt.Sprintf("%d:delto(%d)[below legacy boundary %d: no-op]", e.Step, op.N, legacyTop))
							if err != nil && e.M.Latest > op.N {
								e.Bad("legacy|delto-below-boundary|error", "DeleteVersionsTo(%d) below the legacy boundary %d: %v", op.N, legacyTop, err)
							}
							c.Obs("prunes_below_boundary", 1)
						} else {
							firstBefore := e.M.First
							var lfoBase *seam.MemStore
							var lfoOld *vstate
							if op.Kind == "lfo" && e.M.Exists(op.N) && op.N < e.M.Latest && taint == "" && !e.M.Dirty && (c.Index+f)%2 == 0 {
								lfoBase, _ = seam.Dump(db)
								lfoOld = captureState(e)
							}
							if op.Kind == "delto" && op.N >= legacyTop && op.N < e.M.Latest && e.M.First <= op.N && e.M.Exists(op.N) && !e.M.Dirty && e.M.Base == e.M.Latest && (c.Index+f+e.Step)%3 == 0 {
								// a version covered by the request - a legacy one if there still is one - is pinned
								// by an open Exporter: the request must be rejected and must not have deleted or
								// hidden anything (legacy versions are deleted "at once", before the others)
								pinned := e.M.First + int64(c.Rng.Intn(int(op.N-e.M.First+1)))
								if e.M.First <= legacyTop && c.Rng.Intn(2) == 0 {
									pinned = e.M.First
								}
								if it, err := e.T.GetImmutable(pinned); err == nil {
									if exp, err := it.Export(); err == nil {
										before, _ := seam.Dump(db)
										availBefore := fmt.Sprint(e.T.AvailableVersions())
										derr := e.T.DeleteVersionsTo(op.N)
										after, _ := seam.Dump(db)
										switch {
										case derr == nil:
											e.Bad("legacy|pinned|accepted", "DeleteVersionsTo(%d) succeeded while an Exporter holds version %d (legacy versions up to %d)", op.N, pinned, legacyTop)
										case !before.Equal(after):
											e.Bad("legacy|pinned|store-changed", "the rejected DeleteVersionsTo(%d) (version %d pinned by an export; legacy versions up to %d) changed the raw store", op.N, pinned, legacyTop)
										case fmt.Sprint(e.T.AvailableVersions()) != availBefore:
											e.Bad("legacy|pinned|versions-hidden", "after the rejected DeleteVersionsTo(%d) (version %d pinned by an export) the handle lists versions %v, before it listed %s", op.N, pinned, e.T.AvailableVersions(), availBefore)
										}
										exp.Close()
										c.Obs("pinned_rejections_on_a_legacy_database", 1)
										if len(c.Res.Violations) > 0 {
											e.Dead = true
											break
										}
									}
								}
							}
							out := e.Apply(op, true)
							if e.Dead {
								break
							}
							if lfoBase != nil && out.Err == nil && !out.Expect.Fail && len(c.Res.Violations) == 0 {
								// the same rollback under single storage faults (C17's enumeration, on a copy of
								// the database as it was before the rollback): reported, or carried out
								n := op.N
								fo := &fop{name: "LoadVersionForOverwriting", write: true, old: lfoOld, new: captureState(e), kind: "lfo"}
								fo.run = func(t *iavl.MutableTree) (string, error) { return "", t.LoadVersionForOverwriting(n) }
								probeOp(c, lfoBase, e.Cfg, fo, universe, "legacy database; "+e.Tail(12), 0, 60)
								c.Obs("legacy_rollbacks_fault_enumerated", 1)
							}
							if op.Kind == "save" && out.Err == nil && !out.Expect.Existing {
								newCommits++
								if !bytes.Equal(out.Hash, out.Expect.Hash) {
									e.Bad("legacy|commit|hash", "commit %d on top of the legacy database returned %x, reference says %x", out.Version, out.Hash, out.Expect.Hash)
								}
							}
							if op.Kind == "delto" && out.Err == nil && firstBefore <= legacyTop && op.N >= legacyTop && !out.Expect.Fail {
								crossed++
								legacyTop = 0 // every legacy version is gone
								c.Obs("prunes_across_boundary", 1)
							}
							if op.Kind == "lfo" && out.Err == nil && op.N <= legacyTop && !out.Expect.Fail {
								crossed++
								if op.N < legacyTop {
									legacyTop = op.N
								}
								c.Obs("rollbacks_into_legacy", 1)
							}
						}
						e.CheckAllVersions(universe, 6)
						checkBookkeeping(e, e.T, "live", universe[0], false)
						checkHashes(e, "legacy", true)
						if e.Step%3 == 0 {
							checkVersionedProofs(e, universe, 4)
						}
						h2 := e.OpenHandle(e.Cfg)
						if _, err := h2.Load(); err != nil {
							e.Bad("legacy|reopen|load", "Load() on a fresh handle: %v", err)
						} else {
							checkBookkeeping(e, h2, "reopened", universe[0], false)
						}
						c.State(e.AbstractState() + fmt.Sprint(e.M.First <= legacyTop))
						if len(c.Res.Violations) > 0 {
							if taint != "" {
								first := c.Res.Violations[0]
								c.Res.Violations = []fw.Violation{{Sig: taint, Step: first.Step, Detail: taintWhy + "; first objection afterwards: [" + first.Sig + "] " + first.Detail}}
								c.Obs("histories_cut_short_by_known_finding", 1)
							}
							break
						}
					}
					c.Obs("followups", 1)
					c.Obs("steps", e.Step)
					if newCommits >= 1 && crossed >= 1 {
						nontrivial = true
					}
				}()
			}
			sort.Strings(digests)
			c.Res.Digest = fw.DigestOf(seed, nver, nkeys, mode, digests)
			c.Res.Nontrivial = nontrivial
		},
		Floor: func(obs map[string]int, evals, nontrivial int) string {
			if obs["legacy_dbs"] < 20 || obs["followups"] < 80 || obs["prunes_across_boundary"] < 10 || obs["rollbacks_into_legacy"] < 10 || obs["legacy_dbs_mode_some"] < 3 || obs["legacy_dbs_mode_range"] < 3 {
				return fmt.Sprintf("too few observations: %v", obs)
			}
			return ""
		},
	})
}

var _ = seam.NewMemStore
var _ = iavl.NewNopLogger
