package checks

import (
	"bytes"
	"fmt"
	"sort"

	ics23 "github.com/cosmos/ics23/go"

	"verif/internal/fw"
	"verif/internal/model"
	"verif/internal/v1x"
)

type prover interface {
	GetProof(key []byte) (*ics23.CommitmentProof, error)
	GetMembershipProof(key []byte) (*ics23.CommitmentProof, error)
	GetNonMembershipProof(key []byte) (*ics23.CommitmentProof, error)
	Size() int64
}

// checkProofs is the C03 monitor for one tree state.
func checkProofs(e *v1x.Env, t prover, snap model.Snap, root []byte, where string, probes [][]byte, others map[int64]model.Snap, otherRoots map[int64][]byte) {
	c := e.C
	keys := snap.Keys()
	if len(keys) == 0 {
		return
	}
	for pi, k := range probes {
		val, present := snap[string(k)]
		pr, err := t.GetProof(k)
		if err != nil {
			e.Bad("proof|"+where+"|getproof-error", "GetProof(%q) (present=%v): %v", k, present, err)
			continue
		}
		c.Obs("proofs", 1)
		ex, nex := pr.GetExist(), pr.GetNonexist()
		if present {
			if ex == nil {
				e.Bad("proof|"+where+"|kind", "GetProof(%q) of a present key is not a membership proof", k)
				continue
			}
			if !bytes.Equal(ex.Key, k) || !bytes.Equal(ex.Value, []byte(val)) {
				e.Bad("proof|"+where+"|exist-content", "membership proof of %q carries (%q,%q), stored value is %q", k, ex.Key, ex.Value, val)
			}
			if _, err := t.GetNonMembershipProof(k); err == nil {
				e.Bad("proof|"+where+"|nonmembership-of-present", "GetNonMembershipProof(%q) of a present key returned a proof", k)
			}
			if mp, err := t.GetMembershipProof(k); err != nil || mp.GetExist() == nil {
				e.Bad("proof|"+where+"|membership-error", "GetMembershipProof(%q) of a present key: %v", k, err)
			}
			if !v1x.ProofCheckable(snap, k) {
				c.Obs("proofs_skipped_empty_value", 1)
				continue
			}
			if !ics23.VerifyMembership(ics23.IavlSpec, root, pr, k, []byte(val)) {
				e.Bad("proof|"+where+"|verify-membership", "membership proof of %q=%q does not verify against root %x", k, val, root)
				continue
			}
			c.Obs("proofs_verified", 1)
			// negative bindings
			if ics23.VerifyMembership(ics23.IavlSpec, root, pr, k, append([]byte(val), 'x')) {
				e.Bad("proof|"+where+"|binds-value", "membership proof of %q verifies for a different value", k)
			}
			if len(val) > 1 && ics23.VerifyMembership(ics23.IavlSpec, root, pr, k, []byte(val)[:len(val)-1]) {
				e.Bad("proof|"+where+"|binds-value", "membership proof of %q verifies for a truncated value", k)
			}
			other := probes[(pi+1)%len(probes)]
			if !bytes.Equal(other, k) && ics23.VerifyMembership(ics23.IavlSpec, root, pr, other, []byte(val)) {
				e.Bad("proof|"+where+"|binds-key", "membership proof of %q verifies for key %q", k, other)
			}
			if ics23.VerifyNonMembership(ics23.IavlSpec, root, pr, k) {
				e.Bad("proof|"+where+"|binds-kind", "membership proof of %q verifies as a non-membership proof", k)
			}
			c.Obs("negative_bindings", 4)
			for w, os := range others {
				if ov, ok := os[string(k)]; !ok || ov != val {
					if ics23.VerifyMembership(ics23.IavlSpec, otherRoots[w], pr, k, []byte(val)) {
						e.Bad("proof|"+where+"|binds-root", "membership proof of %q=%q verifies against the root of version %d where the claim is false", k, val, w)
					}
					c.Obs("negative_bindings", 1)
				}
			}
			continue
		}
		// absent key
		if nex == nil {
			e.Bad("proof|"+where+"|kind", "GetProof(%q) of an absent key is not a non-membership proof", k)
			continue
		}
		if _, err := t.GetMembershipProof(k); err == nil {
			e.Bad("proof|"+where+"|membership-of-absent", "GetMembershipProof(%q) of an absent key returned a proof", k)
		}
		i := sort.SearchStrings(keys, string(k))
		var wantL, wantR []byte
		if i > 0 {
			wantL = []byte(keys[i-1])
		}
		if i < len(keys) {
			wantR = []byte(keys[i])
		}
		var gotL, gotR []byte
		if nex.Left != nil {
			gotL = nex.Left.Key
		}
		if nex.Right != nil {
			gotR = nex.Right.Key
		}
		if !bytes.Equal(gotL, wantL) || !bytes.Equal(gotR, wantR) || (nex.Left == nil) != (wantL == nil) || (nex.Right == nil) != (wantR == nil) {
			e.Bad("proof|"+where+"|neighbours", "non-membership proof of %q is bracketed by (%q,%q), the adjacent keys are (%q,%q)", k, gotL, gotR, wantL, wantR)
		}
		if !v1x.ProofCheckable(snap, k) {
			c.Obs("proofs_skipped_empty_value", 1)
			continue
		}
		if !ics23.VerifyNonMembership(ics23.IavlSpec, root, pr, k) {
			e.Bad("proof|"+where+"|verify-nonmembership", "non-membership proof of %q does not verify against root %x (neighbours %q,%q)", k, root, gotL, gotR)
			continue
		}
		c.Obs("proofs_verified", 1)
		if ics23.VerifyMembership(ics23.IavlSpec, root, pr, k, []byte("v")) {
			e.Bad("proof|"+where+"|binds-kind", "non-membership proof of %q verifies as a membership proof", k)
		}
		// a non-membership proof must not verify for a present key
		for _, pk := range []string{keys[0], keys[len(keys)-1]} {
			if ics23.VerifyNonMembership(ics23.IavlSpec, root, pr, []byte(pk)) {
				e.Bad("proof|"+where+"|binds-key", "non-membership proof of %q verifies for the present key %q", k, pk)
			}
		}
		c.Obs("negative_bindings", 3)
		for w, os := range others {
			if _, ok := os[string(k)]; ok {
				if ics23.VerifyNonMembership(ics23.IavlSpec, otherRoots[w], pr, k) {
					e.Bad("proof|"+where+"|binds-root", "non-membership proof of %q verifies against the root of version %d where the key is present", k, w)
				}
				c.Obs("negative_bindings", 1)
			}
		}
	}
}

func init() {
	fw.Register(&fw.Check{
		ID:    "C03",
		Level: "exploration",
		Cases: func(tier string) int { return tierN(tier, 400, 15000) },
		Rule: "case = one history (10-45 ops quick, up to 120 thorough; trees of size 1, 2, 3..24; versions whose nodes are inherited from older commits; pruning, reopen, rollback; initial versions incl. 63/64/127/128 so that leaf and inner versions cross varint boundaries). After every commit / reopen / prune and at random dirty points, for the working tree (root = WorkingHash) and every non-empty retained version (root = hash returned at commit, equal to the reference), and for every probe key (all present keys, below min, above max, between adjacent keys, prefixes and extensions): " +
			"GetProof kind, proof content, verification with ics23.VerifyMembership/VerifyNonMembership under ics23.IavlSpec, non-membership neighbours = model's adjacent keys, GetMembershipProof(absent) and GetNonMembershipProof(present) must fail, GetVersionedProof; negative bindings: the proof must NOT verify for another value, another key, the opposite kind, or the root of another retained version where the claim is false. " +
			"distinct = hash(config, ops); non-trivial = >=2 commits and >=1 proof verified on a version with inherited nodes or after prune/reopen.",
		Assumptions: []string{"the ics23 verifier (github.com/cosmos/ics23/go v0.11.0) and IavlSpec are trusted", "ics23 cannot verify leaves with an empty value: those proofs are checked for kind/content only and counted as skipped"},
		Run: func(c *fw.Ctx) {
			w := map[string]int{"set": 40, "rm": 14, "save": 22, "rollback": 2, "reopen": 5, "load": 2, "delto": 6, "lfo": 2, "delfrom": 1, "redo": 3}
			p := &v1x.GenParams{MinOps: 10, MaxOps: 45, W: w, MaxKeys: 10, InvalidPct: 2,
				Backends: []string{"mem"}, Initials: []int64{0, 0, 0, 1, 5, 63, 64, 127, 128, 8191, 8192, 1000000}}
			if c.Tier == "thorough" {
				p.MaxOps = 120
				p.MaxKeys = 24
			}
			pl := v1x.MakePlan(c.Rng, p)
			if v1x.BoundaryLengthVariant(pl, c.Index) {
				c.Obs("histories_with_a_key_of_boundary_length", 1)
			}
			c.Res.Digest = fw.DigestOf(pl.Cfg, pl.Summary(1000))
			if c.Index < 2 {
				c.Res.Sample = pl.Summary(60)
			}
			e, err := v1x.NewEnv(c, pl.Cfg)
			if err != nil {
				c.Violate(0, "exec|open|error", "%v", err)
				return
			}
			defer e.Close()
			saves := 0
			for _, op := range pl.Ops {
				out := e.Apply(op, false)
				if e.Dead {
					break
				}
				if op.Kind == "save" && out.Err == nil {
					saves++
				}
				structural := op.Kind != "set" && op.Kind != "rm"
				if !structural && c.Rng.Intn(4) != 0 {
					continue
				}
				// working tree (possibly dirty)
				if len(e.M.Work) > 0 {
					probes := v1x.Probes(pl.Universe, e.M.Work)
					where := "work-clean"
					if e.M.Dirty {
						where = "work-dirty"
					}
					checkProofs(e, e.T, e.M.Work, e.T.WorkingHash(), where, probes, nil, nil)
				}
				vs := e.M.Versions()
				others := map[int64]model.Snap{}
				roots := map[int64][]byte{}
				for _, v := range vs {
					others[v] = e.M.Vers[v]
					roots[v] = e.R.Hashes[v]
				}
				cnt := 0
				for i := len(vs) - 1; i >= 0 && cnt < 4; i-- {
					v := vs[i]
					snap := e.M.Vers[v]
					if len(snap) == 0 {
						continue
					}
					cnt++
					it, err := e.T.GetImmutable(v)
					if err != nil {
						e.Bad("proof|old|getimmutable-error", "GetImmutable(%d): %v", v, err)
						continue
					}
					root := it.Hash()
					if ch, ok := e.CommitHash[v]; ok && !bytes.Equal(ch, root) {
						e.Bad("proof|old|root-mismatch", "GetImmutable(%d).Hash()=%x but the commit returned %x", v, root, ch)
					}
					where := "old"
					if v == e.M.Latest {
						where = "latest"
					}
					probes := v1x.Probes(pl.Universe, snap)
					delete(others, v)
					checkProofs(e, it, snap, root, where, probes, others, roots)
					others[v] = snap
					// GetVersionedProof agrees
					k := probes[c.Rng.Intn(len(probes))]
					vp, err := e.T.GetVersionedProof(k, v)
					if err != nil {
						e.Bad("proof|"+where+"|versionedproof-error", "GetVersionedProof(%q,%d): %v", k, v, err)
					} else if _, present := snap[string(k)]; (vp.GetExist() != nil) != present {
						e.Bad("proof|"+where+"|versionedproof-kind", "GetVersionedProof(%q,%d) has the wrong kind (present=%v)", k, v, present)
					}
					c.Obs("versions_proved", 1)
				}
				c.State(e.AbstractState())
				if len(c.Res.Violations) > 0 {
					break
				}
			}
			c.Obs("steps", e.Step)
			c.Res.Nontrivial = saves >= 2 && c.Res.Obs["proofs_verified"] > 0
		},
		Floor: func(obs map[string]int, evals, nontrivial int) string {
			if obs["proofs_verified"] < 20000 || obs["negative_bindings"] < 50000 || obs["versions_proved"] < 1000 {
				return fmt.Sprintf("too few observations: %v", obs)
			}
			return ""
		},
	})
}
