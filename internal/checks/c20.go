package checks

import (
	"bytes"
	"context"
	"fmt"
	"os"
	"path/filepath"
	"time"

	"github.com/bvinc/go-sqlite-lite/sqlite3"
	iavl2 "github.com/cosmos/iavl/v2"

	"verif/internal/fw"
	"verif/internal/model"
	"verif/internal/ref"
	"verif/internal/v1x"
)

// rootRows reads the root table of a v2 store: version -> checkpoint flag.
func rootRows(dir string) (map[int64]bool, error) {
	conn, err := sqlite3.Open(fmt.Sprintf("file:%s/tree.sqlite?mode=ro", dir))
	if err != nil {
		return nil, err
	}
	defer conn.Close()
	st, err := conn.Prepare("SELECT version, checkpoint FROM root")
	if err != nil {
		return nil, err
	}
	defer st.Close()
	out := map[int64]bool{}
	for {
		has, err := st.Step()
		if err != nil {
			return nil, err
		}
		if !has {
			break
		}
		var v int64
		var cp bool
		if err := st.Scan(&v, &cp); err != nil {
			return nil, err
		}
		out[v] = cp
	}
	return out, nil
}

// leafPruneDone reports whether the leaf pruning loop has finished its work up to checkpoint cp
// (no orphaned leaf rows at or below cp, no leaf_delete rows below it).
func leafPruneDone(dir string, cp int64) bool {
	conn, err := sqlite3.Open(fmt.Sprintf("file:%s/changelog.sqlite?mode=ro", dir))
	if err != nil {
		return false
	}
	defer conn.Close()
	count := func(q string) int64 {
		st, err := conn.Prepare(q, cp)
		if err != nil {
			return -1
		}
		defer st.Close()
		if has, err := st.Step(); err != nil || !has {
			return -1
		}
		var n int64
		if err := st.Scan(&n); err != nil {
			return -1
		}
		return n
	}
	return count("SELECT count(*) FROM leaf_orphan WHERE at <= ?") == 0 && count("SELECT count(*) FROM leaf_delete WHERE version < ?") == 0
}

// checkLoaded compares a loaded v2 tree with version t of the model.
func checkLoaded(c *fw.Ctx, tr *iavl2.Tree, t int64, snap model.Snap, hash []byte, universe [][]byte, tag, hist string) bool {
	ok := true
	bad := func(sig, f string, a ...any) {
		ok = false
		c.Violate(int(t), "v2p|"+tag+"|"+sig, "%s; %s", fmt.Sprintf(f, a...), hist)
	}
	if tr.Version() != t {
		bad("version", "after LoadVersion(%d) Version()=%d", t, tr.Version())
	}
	if got := tr.Hash(); !bytes.Equal(got, hash) {
		bad("hash", "version %d reloads with root hash %x, the commit returned %x", t, got, hash)
	}
	if int(tr.Size()) != len(snap) {
		bad("size", "version %d reloads with Size()=%d, model has %d keys", t, tr.Size(), len(snap))
	}
	wrong := 0
	for _, k := range v1x.Probes(universe, snap) {
		want, present := snap[string(k)]
		got, err := tr.Get(k)
		if err != nil || (got != nil) != present || (present && string(got) != want) {
			wrong++
			if wrong == 1 {
				bad("get", "version %d reloaded: Get(%q)=(%q,%v), model says %q (present=%v)", t, k, got, err, want, present)
			}
		}
		c.Obs("v2_reload_reads", 1)
	}
	// iteration over the reloaded tree
	itr, err := tr.Iterator(nil, nil, false)
	if err != nil {
		bad("iterator-error", "%v", err)
		return false
	}
	var got []kvp
	for n := 0; itr.Valid(); itr.Next() {
		got = append(got, kvp{append([]byte(nil), itr.Key()...), append([]byte(nil), itr.Value()...)})
		if n++; n > 10000 {
			break
		}
	}
	itr.Close()
	if want := expectRange(snap, nil, nil, true, false); !samePairs(got, want) {
		bad("iterate", "version %d reloaded iterates to %s, model says %s", t, fmtPairs(got), fmtPairs(want))
	}
	return ok
}

// continueFromOlder: "loading any retained version ... and continuing the history from there yields
// the same hashes as the uninterrupted run": a copy of the closed store is reopened at version t,
// the recorded write sets of t+1..latest are applied again and every commit must return the version
// number and root hash of the uninterrupted run; contents are compared at the end.
func continueFromOlder(c *fw.Ctx, x *v2History, cfg v2cfg, dir string, t int64, all [][]v2op, hist string) {
	h, err := openV2(dir, cfg)
	if err != nil {
		return
	}
	defer h.close()
	var loadErr error
	done, _, ev := fw.Bounded(120*time.Second, "github.com/cosmos/iavl/v2", func() {
		defer func() {
			if r := recover(); r != nil {
				loadErr = fmt.Errorf("panic: %v", r)
			}
		}()
		loadErr = h.tree.LoadVersion(t)
	})
	if !done {
		c.Res.Inconcl = "LoadVersion did not return: " + ev
		return
	}
	if loadErr != nil {
		c.Violate(int(t), "v2p|continue-older|load-error", "LoadVersion(%d): %v; %s", t, loadErr, hist)
		return
	}
	for v := t + 1; v <= x.M.Latest; v++ {
		var hash []byte
		var ver int64
		var err error
		func() {
			defer func() {
				if r := recover(); r != nil {
					err = fmt.Errorf("panic: %v", r)
				}
			}()
			for _, o := range all[v-1] {
				if o.del {
					if _, _, e := h.tree.Remove(o.k); e != nil {
						err = e
						return
					}
				} else if _, e := h.tree.Set(o.k, o.v); e != nil {
					err = e
					return
				}
			}
			hash, ver, err = h.tree.SaveVersion()
		}()
		if err != nil {
			c.Violate(int(v), "v2p|continue-older|error", "after LoadVersion(%d), re-applying the writes of version %d: %v; %s", t, v, err, hist)
			return
		}
		if ver != v || !bytes.Equal(hash, x.hashes[v]) {
			c.Violate(int(v), "v2p|continue-older|hash", "after LoadVersion(%d), the commit of the same writes returned (%x,%d), the uninterrupted run returned (%x,%d); %s", t, hash, ver, x.hashes[v], v, hist)
			return
		}
		c.Obs("v2_commits_continued_from_an_older_version", 1)
	}
	checkV2Reads(c, h.tree, x.M.Vers[x.M.Latest], x.universe, -1, "continued-from-older", hist, c.Rng, 20)
}

// runBigPrune: a prune with a large backlog (3000 keys, versions of 300 updates) is requested and the
// history goes on at once, without waiting for the background pruning. Kind B (most cases): the
// request is filed after version 15 and the very next commit, 16, is a checkpoint (interval 5), so
// that the checkpoint save interrupts the running prune; kind A (the fourth of every four): filed after
// version 11, five more commits follow at once. Afterwards (pruning drained, one more commit, closed
// and reopened) the checkpoint at the prune point, every later version and the latest version must
// reload exactly. Whether the prune was still running when the checkpoint was saved is observed (root
// rows below the target still present right after that commit) and counted.
func runBigPrune(c *fw.Ctx) {
	rng := c.Rng
	// (eviction depth 4 in the sharded cases: the caller keeps reading branch nodes from SQLite - and
	// resolving their shard - while the writer goroutine prunes)
	cfg := v2cfg{5, int8(c.Index / 32 % 2), -1, c.Index/64%2 == 1}
	if cfg.Shard && c.Index/256%2 == 1 {
		cfg.Evict = 4
	}
	kindA := c.Index/32%4 == 3
	before, after := 15, 1
	if kindA {
		before, after = 11, 5
	}
	dir := filepath.Join(c.TmpDir, fmt.Sprintf("v2big-%d", c.Index))
	os.RemoveAll(dir)
	os.MkdirAll(dir, 0o755)
	defer os.RemoveAll(dir)
	h, err := openV2(dir, cfg)
	if err != nil {
		c.Res.Inconcl = "cannot open sqlite: " + err.Error()
		return
	}
	x := &v2History{c: c, cfg: cfg, h: h, M: model.New(0), R: ref.NewHistory(0), hashes: map[int64][]byte{}}
	const nkeys = 3000
	for i := 0; i < nkeys; i++ {
		x.universe = append(x.universe, []byte(fmt.Sprintf("b%05d", i)))
	}
	c.Res.Digest = fw.DigestOf("big-prune", cfg, c.Index)
	writeSet := func(first bool) []v2op {
		var ops []v2op
		if first {
			for _, k := range x.universe {
				x.vc++
				ops = append(ops, v2op{k: k, v: []byte(fmt.Sprintf("v%d", x.vc))})
			}
			return ops
		}
		start := rng.Intn(nkeys)
		for i := 0; i < 300; i++ {
			x.vc++
			ops = append(ops, v2op{k: x.universe[(start+i*7)%nkeys], v: []byte(fmt.Sprintf("v%d", x.vc))})
		}
		// (at most one write per key per version)
		seen := map[string]bool{}
		out := ops[:0]
		for _, o := range ops {
			if !seen[string(o.k)] {
				seen[string(o.k)] = true
				out = append(out, o)
			}
		}
		return out
	}
	commitN := func(n int, first bool) bool {
		for i := 0; i < n; i++ {
			if !x.commit(writeSet(first && i == 0)) {
				return false
			}
			x.log = x.log[:0] // (the write sets are too long to print)
		}
		return true
	}
	if !commitN(before, true) {
		h.close()
		return
	}
	if err := h.tree.DeleteVersionsTo(11); err != nil {
		c.Violate(11, "v2p|big-prune|error", "DeleteVersionsTo(11): %v", err)
		h.close()
		return
	}
	if kindA {
		// reads of the whole key space while the prune runs in the background
		snap := x.M.Vers[x.M.Latest]
		for round := 0; round < 2; round++ {
			for _, k := range x.universe {
				got, err := h.tree.Get(k)
				if want, ok := snap[string(k)]; err != nil || !ok || string(got) != want {
					c.Violate(11, "v2p|big-prune|get-while-pruning", "Get(%q)=(%q,%v) while the prune runs in the background, the model says %q", k, got, err, want)
					h.close()
					return
				}
			}
		}
		c.Obs("v2_reads_while_a_big_prune_runs", 2*len(x.universe))
	}
	// the history goes on at once, across the next checkpoint (16)
	if !commitN(after, false) {
		h.close()
		return
	}
	if r, err := rootRows(dir); err == nil {
		for v := range r {
			if v < 11 {
				c.Obs("v2_big_prunes_still_running_when_the_next_checkpoint_was_saved", 1)
				break
			}
		}
	}
	drained := false
	for i := 0; i < 6000; i++ { // (up to 120 s on a stalled machine)
		time.Sleep(20 * time.Millisecond)
		r, err := rootRows(dir)
		if err != nil {
			continue
		}
		below := 0
		for v := range r {
			if v < 11 {
				below++
			}
		}
		if below == 0 && leafPruneDone(dir, 11) {
			drained = true
			break
		}
	}
	if !commitN(1, false) {
		h.close()
		return
	}
	time.Sleep(60 * time.Millisecond)
	h.close()
	if !drained {
		c.Obs("v2_big_prunes_not_drained_within_bound", 1)
		return
	}
	hist := fmt.Sprintf("{%s} 3000 keys; v1 sets all, v2..v%d update 300 keys each; DeleteVersionsTo(11); v%d..v16 at once (checkpoint interval 5); pruning drained; v17; closed, reopened", cfg, before, before+1)
	for _, t := range []int64{11, 12, 14, 15, 16, 17} {
		re, err := openV2(dir, cfg)
		if err != nil {
			c.Res.Inconcl = err.Error()
			return
		}
		var lerr error
		func() {
			defer func() {
				if r := recover(); r != nil {
					lerr = fmt.Errorf("panic: %v", r)
				}
			}()
			lerr = re.tree.LoadVersion(t)
		}()
		if lerr != nil {
			c.Violate(int(t), "v2p|big-prune|load-error", "LoadVersion(%d): %v; %s", t, lerr, hist)
			re.close()
			return
		}
		func() {
			defer func() {
				if r := recover(); r != nil {
					c.Violate(int(t), "v2p|big-prune|read-panic", "reading version %d: %v; %s", t, r, hist)
				}
			}()
			checkLoaded(c, re.tree, t, x.M.Vers[t], x.hashes[t], x.universe, "big-prune", hist)
		}()
		re.close()
		if len(c.Res.Violations) > 0 {
			return
		}
	}
	c.Obs("v2_big_prunes_across_a_checkpoint", 1)
	c.Res.Nontrivial = true
}

// lockedCommit: a second SQLite connection holds the write lock of changelog.sqlite or tree.sqlite
// while ONE version is committed (as a backup job or a sqlite3 shell would). Only acknowledged
// commits are judged: if SaveVersion reports the failure nothing is asked of that version; if it
// reports success the version must reload exactly after close and reopen. The versions committed
// before must reload in both cases.
func lockedCommit(c *fw.Ctx, x *v2History, cfg v2cfg, dir string) {
	prev := x.M.Latest
	h, err := openV2(dir, cfg)
	if err != nil {
		return
	}
	if err := h.tree.LoadVersion(prev); err != nil {
		h.close()
		return
	}
	file := []string{"changelog.sqlite", "tree.sqlite"}[(c.Index/2)%2]
	M2, R2 := x.M.Clone(), x.R.Clone()
	vc := x.vc
	ops := genWriteSet(c.Rng, x.universe, M2.Work, &vc, false)
	if len(ops) == 0 {
		vc++
		ops = []v2op{{k: x.universe[0], v: []byte(fmt.Sprintf("v%d", vc))}}
	}
	for _, o := range ops {
		if o.del {
			h.tree.Remove(o.k)
			M2.Remove(string(o.k))
			R2.Remove(o.k)
		} else {
			h.tree.Set(o.k, o.v)
			M2.Set(string(o.k), string(o.v))
			R2.Set(o.k, o.v)
		}
	}
	locker, err := sqlite3.Open("file:" + filepath.Join(dir, file))
	if err != nil {
		h.close()
		return
	}
	if err := locker.Exec("BEGIN IMMEDIATE"); err != nil {
		locker.Close()
		h.close()
		c.Obs("v2_lock_not_obtained", 1)
		return
	}
	var hash []byte
	var ver int64
	var saveErr error
	done, _, ev := fw.Bounded(120*time.Second, "github.com/cosmos/iavl/v2", func() { hash, ver, saveErr = h.tree.SaveVersion() })
	_ = locker.Exec("ROLLBACK")
	locker.Close()
	if !done {
		c.Res.Inconcl = "SaveVersion under a foreign write lock did not return: " + ev
		return
	}
	h.close() // the handle is abandoned either way
	hist := fmt.Sprintf("%s; then, with a foreign connection holding the write lock of %s, v%d:[%s] SaveVersion -> err=%v", x.hist(), file, prev+1, opsStr(ops), saveErr)
	re, err := openV2(dir, cfg)
	if err != nil {
		c.Res.Inconcl = err.Error()
		return
	}
	if err := re.tree.LoadVersion(prev); err != nil {
		c.Violate(int(prev), "v2p|locked-commit|previous-version-lost", "LoadVersion(%d) fails after the commit of %d ran into a foreign lock: %v; %s", prev, prev+1, err, hist)
	} else {
		checkLoaded(c, re.tree, prev, x.M.Vers[prev], x.hashes[prev], x.universe, "locked-commit|previous", hist)
	}
	re.close()
	if saveErr != nil {
		c.Obs("v2_locked_commits_reported_as_failed", 1)
		return
	}
	rh, rv, _ := R2.Commit()
	M2.Commit()
	if ver != rv || !bytes.Equal(hash, rh) {
		c.Violate(int(ver), "v2p|locked-commit|hash", "SaveVersion under a foreign lock returned (%x,%d), the reference says (%x,%d); %s", hash, ver, rh, rv, hist)
		return
	}
	re2, err := openV2(dir, cfg)
	if err != nil {
		c.Res.Inconcl = err.Error()
		return
	}
	defer re2.close()
	if err := re2.tree.LoadVersion(ver); err != nil {
		c.Violate(int(ver), "v2p|locked-commit|acknowledged-version-lost", "SaveVersion reported version %d as committed although %s was locked by another connection, but LoadVersion(%d) after close and reopen fails: %v; %s", ver, file, ver, err, hist)
		return
	}
	checkLoaded(c, re2.tree, ver, M2.Vers[ver], hash, x.universe, "locked-commit|acknowledged", hist)
	c.Obs("v2_locked_commits_acknowledged_and_reloaded", 1)
}

func init() {
	fw.Register(&fw.Check{
		ID:          "C20",
		Level:       "exploration",
		Cases:       func(tier string) int { return tierN(tier, 128, 6000) },
		CaseTimeout: 300e9,
		Rule: "case = one normal-form history (5-14 versions incl. empty versions and commits without writes; 1-10 keys) (every 4th case: 32 keys written once, then versions touching one hot key plus removals of keys that are not there) written by a v2 tree over on-disk SQLite (checkpoint interval from {1,2,3,7}, HeightFilter{0,1}, EvictionDepth{-1,1,8}, ShardTrees{off,on}; combination = case index mod 48) and then closed. " +
			"(reload) for EVERY version t the database is reopened by a fresh tree and LoadVersion(t) must succeed with Version()=t, the root hash returned at commit, Size, Get of every probe key and full iteration equal to the model of t - targets fall on, just after and far after a checkpoint (the root table tells which; counted per class). (continue-older) for a random older version t (and an older version with an empty tree, if any) a copy of the store is reopened at t and the recorded write sets of t+1..latest are applied again: every commit must return the version number and hash of the uninterrupted run. (continue) from the reloaded latest version 2-3 further write sets are committed and every hash must equal the reference tree continuing the uninterrupted history; then the continued store is reloaded again. " +
			"(prune) on a copy of the store DeleteVersionsTo(n) for a random n is issued, the harness waits (bounded polling of the root table; not draining within the bound is INCONCLUSIVE, not a violation) and commits one more version, closes and reopens: the latest version and every version at or above the last checkpoint not after n must load with the right hash and contents. (snapshot) SaveSnapshot at the latest version, then LoadSnapshot(version, PreOrder) on a fresh tree: root hash and contents must equal the source version. (locked commit, every 2nd case) one further version is committed while a second SQLite connection holds the write lock of changelog.sqlite or tree.sqlite: if SaveVersion acknowledges the commit the version must reload exactly after close and reopen (if it reports the failure only the earlier versions are checked). " +
			"(prune + close, every 4th case) six times on a copy of the store: DeleteVersionsTo(n) directly followed by Close() - the process must survive and the latest version must reload exactly. " +
			"(big prune, every 32nd case) 3000 keys, versions of 300 updates, checkpoint interval 5, HeightFilter{0,1} x ShardTrees{off,on}: DeleteVersionsTo(11) is filed after version 15 and the history goes on at once with version 16 - a checkpoint, whose save interrupts the prune that is still running (observed and counted through the root rows below the target that are still present right after that commit; in one of four: filed after version 11, then two reads of all keys and five commits at once) - then pruning drains, one more commit, close, reopen: versions 11, 12, 14, 15, 16, 17 must reload with the right hash and all 3000 values; the process must survive the overlap. " +
			"distinct = hash(options, write sets); non-trivial = >=1 reload of a non-checkpoint version and >=1 continued commit.",
		Assumptions: []string{"M and R as oracles; the root table is read directly (read-only SQLite connection) to classify load targets and to detect the end of background pruning", "continuation is judged from the latest version (re-committing an existing v2 version is not part of the property)"},
		Run: func(c *fw.Ctx) {
			rng := c.Rng
			if c.Index%32 == 31 {
				runBigPrune(c)
				return
			}
			var cfgs []v2cfg
			for _, cp := range []int64{1, 2, 3, 7} {
				for _, hf := range []int8{0, 1} {
					for _, ev := range []int8{-1, 1, 8} {
						for _, sh := range []bool{false, true} {
							cfgs = append(cfgs, v2cfg{cp, hf, ev, sh})
						}
					}
				}
			}
			cfg := cfgs[c.Index%len(cfgs)]
			dir := filepath.Join(c.TmpDir, fmt.Sprintf("v2p-%d", c.Index))
			os.RemoveAll(dir)
			os.MkdirAll(dir, 0o755)
			defer os.RemoveAll(dir)
			h, err := openV2(dir, cfg)
			if err != nil {
				c.Res.Inconcl = "cannot open sqlite: " + err.Error()
				return
			}
			x := &v2History{c: c, cfg: cfg, h: h, M: model.New(0), R: ref.NewHistory(0), universe: v2Universe(rng), hashes: map[int64][]byte{}}
			nver := 5 + rng.Intn(10)
			// every 4th case is "wide and localised": 32 keys written once, then versions that touch
			// only one or two hot keys and (half of the time) remove a key that is not there - large
			// parts of the tree stay untouched from checkpoint to checkpoint
			wide := c.Index%4 == 1
			if wide {
				x.universe = nil
				for i := 0; i < 32; i++ {
					x.universe = append(x.universe, []byte(fmt.Sprintf("w%02d", i)))
				}
				c.Obs("v2_wide_localised_histories", 1)
			}
			absent := [][]byte{[]byte("zzz-not-there"), []byte("a-not-there"), []byte("w15x"), []byte("w07-")}
			var all [][]v2op
			for v := 0; v < nver; v++ {
				ops := genWriteSet(rng, x.universe, x.M.Work, &x.vc, rng.Intn(10) == 0)
				if wide {
					ops = nil
					if v == 0 {
						for _, k := range x.universe {
							x.vc++
							ops = append(ops, v2op{k: k, v: []byte(fmt.Sprintf("v%d", x.vc))})
						}
					} else {
						hot := rng.Intn(2) * 31 // the smallest or the largest key
						x.vc++
						ops = append(ops, v2op{k: x.universe[hot], v: []byte(fmt.Sprintf("v%d", x.vc))})
						if rng.Intn(2) == 0 {
							ops = append(ops, v2op{del: true, k: absent[rng.Intn(len(absent))]})
						}
					}
				}
				all = append(all, ops)
				if !x.commit(ops) {
					h.close()
					return
				}
			}
			c.Res.Digest = fw.DigestOf(cfg, fmt.Sprint(all))
			if c.Index < 2 {
				c.Res.Sample = map[string]any{"options": cfg.String(), "history": x.log}
			}
			h.close()
			latest := x.M.Latest
			rows, err := rootRows(dir)
			if err != nil {
				c.Res.Inconcl = "cannot read the root table: " + err.Error()
				return
			}
			hist := x.hist()
			nonCheckpointReloads, continued := 0, 0
			lastCp := int64(0)
			// ---- reload every version ----
			for t := int64(1); t <= latest; t++ {
				if rows[t] {
					lastCp = t
				}
				class := "on_checkpoint"
				switch {
				case rows[t]:
				case t-lastCp == 1:
					class = "just_after_checkpoint"
				default:
					class = "far_after_checkpoint"
				}
				h2, err := openV2(dir, cfg)
				if err != nil {
					c.Res.Inconcl = err.Error()
					return
				}
				if err := h2.tree.LoadVersion(t); err != nil {
					c.Violate(int(t), "v2p|reload|error|"+class, "LoadVersion(%d) after close and reopen fails: %v; %s", t, err, hist)
					h2.close()
					continue
				}
				checkLoaded(c, h2.tree, t, x.M.Vers[t], x.hashes[t], x.universe, "reload|"+class, hist)
				c.Obs("v2_reloads_"+class, 1)
				if !rows[t] {
					nonCheckpointReloads++
				}
				h2.close()
				if len(c.Res.Violations) > 3 {
					return
				}
			}
			if len(c.Res.Violations) > 0 {
				return
			}
			// ---- continue from an older version on a copy (same writes, same hashes) ----
			if latest >= 3 {
				targets := []int64{1 + rng.Int63n(latest-1)}
				// prefer a version whose tree is empty, if there is one below the latest
				for t := latest - 1; t >= 1; t-- {
					if len(x.M.Vers[t]) == 0 {
						targets = append(targets, t)
						break
					}
				}
				for _, t := range targets {
					cdir := dir + "-cont"
					os.RemoveAll(cdir)
					if err := copyDir(dir, cdir); err == nil {
						continueFromOlder(c, x, cfg, cdir, t, all, hist)
					}
					os.RemoveAll(cdir)
					if len(c.Res.Violations) > 0 {
						return
					}
				}
			}
			// ---- prune on a copy ----
			if latest >= 4 {
				pdir := dir + "-prune"
				os.RemoveAll(pdir)
				if err := copyDir(dir, pdir); err == nil {
					pruneAndReload(c, x, cfg, pdir, rows, hist)
				}
				os.RemoveAll(pdir)
			}
			// ---- prune request directly followed by Close (shutdown right after requesting a prune) ----
			if latest >= 3 && c.Index%4 == 2 && len(c.Res.Violations) == 0 {
				for round := 0; round < 6 && len(c.Res.Violations) == 0; round++ {
					qdir := dir + "-pclose"
					os.RemoveAll(qdir)
					if err := copyDir(dir, qdir); err != nil {
						break
					}
					if hq, err := openV2(qdir, cfg); err == nil {
						if err := hq.tree.LoadVersion(latest); err == nil {
							n := int64(1 + rng.Intn(int(latest-1)))
							if err := hq.tree.DeleteVersionsTo(n); err != nil {
								c.Violate(int(n), "v2p|prune-close|error", "DeleteVersionsTo(%d): %v; %s", n, err, hist)
							}
							hq.close() // at once: the process must survive, the store must reopen
							c.Obs("v2_prune_requests_directly_followed_by_close", 1)
							if h3, err := openV2(qdir, cfg); err == nil {
								if err := h3.tree.LoadVersion(latest); err != nil {
									c.Violate(int(latest), "v2p|prune-close|load-error", "LoadVersion(%d) after DeleteVersionsTo(%d) + Close(): %v; %s", latest, n, err, hist)
								} else {
									checkLoaded(c, h3.tree, latest, x.M.Vers[latest], x.hashes[latest], x.universe, "prune-close", hist)
								}
								h3.close()
							}
						} else {
							hq.close()
						}
					}
					os.RemoveAll(qdir)
				}
			}
			// ---- snapshot ----
			if len(c.Res.Violations) == 0 {
				sdir := dir + "-snap"
				os.RemoveAll(sdir)
				if err := copyDir(dir, sdir); err == nil {
					snapshotRoundTrip(c, x, cfg, sdir, hist)
				}
				os.RemoveAll(sdir)
			}
			// ---- continue from the reloaded latest ----
			if len(c.Res.Violations) == 0 {
				h3, err := openV2(dir, cfg)
				if err != nil {
					c.Res.Inconcl = err.Error()
					return
				}
				if err := h3.tree.LoadVersion(latest); err != nil {
					c.Violate(int(latest), "v2p|continue|load-error", "%v; %s", err, hist)
					h3.close()
					return
				}
				x.h = h3
				x.v1 = nil
				for i := 0; i < 2+rng.Intn(2); i++ {
					ops := genWriteSet(rng, x.universe, x.M.Work, &x.vc, false)
					if !x.commit(ops) {
						break
					}
					continued++
					checkV2Reads(c, h3.tree, x.M.Work, x.universe, refHeight(x.R.Work), "continued", x.hist(), rng, 30)
					c.Obs("v2_continued_commits", 1)
				}
				h3.close()
				if len(c.Res.Violations) == 0 {
					h4, err := openV2(dir, cfg)
					if err == nil {
						if err := h4.tree.LoadVersion(x.M.Latest); err != nil {
							c.Violate(int(x.M.Latest), "v2p|continue|reload-error", "LoadVersion(%d) of a version committed after a reload: %v; %s", x.M.Latest, err, x.hist())
						} else {
							checkLoaded(c, h4.tree, x.M.Latest, x.M.Vers[x.M.Latest], x.hashes[x.M.Latest], x.universe, "reload-after-continue", x.hist())
						}
						h4.close()
					}
				}
			}
			// ---- a commit while another connection holds the write lock of one of the two files ----
			if len(c.Res.Violations) == 0 && c.Index%2 == 0 {
				bdir := dir + "-busy"
				os.RemoveAll(bdir)
				if err := copyDir(dir, bdir); err == nil {
					lockedCommit(c, x, cfg, bdir)
				}
				os.RemoveAll(bdir)
			}
			c.Res.Nontrivial = nonCheckpointReloads >= 1 && continued >= 1
		},
		Floor: func(obs map[string]int, evals, nontrivial int) string {
			for _, k := range []string{"v2_reloads_on_checkpoint", "v2_reloads_just_after_checkpoint", "v2_reloads_far_after_checkpoint", "v2_continued_commits", "v2_prunes_drained", "v2_snapshots_loaded"} {
				if obs[k] < 20 {
					return fmt.Sprintf("observation %s=%d below floor 20", k, obs[k])
				}
			}
			return ""
		},
	})
}

func pruneAndReload(c *fw.Ctx, x *v2History, cfg v2cfg, pdir string, rows map[int64]bool, hist string) {
	latest := x.M.Latest
	n := int64(1 + c.Rng.Intn(int(latest-1)))
	hp, err := openV2(pdir, cfg)
	if err != nil {
		return
	}
	if err := hp.tree.LoadVersion(latest); err != nil {
		hp.close()
		return
	}
	// the checkpoint not after n
	keepFrom := int64(1)
	for v := int64(1); v <= n; v++ {
		if rows[v] {
			keepFrom = v
		}
	}
	if err := hp.tree.DeleteVersionsTo(n); err != nil {
		c.Violate(int(n), "v2p|prune|error", "DeleteVersionsTo(%d): %v; %s", n, err, hist)
		hp.close()
		return
	}
	// bounded wait: the root rows below the kept checkpoint disappear at the end of tree pruning
	drained := false
	for i := 0; i < 3000; i++ { // (up to 60 s on a stalled machine; a prune of these trees takes milliseconds)
		time.Sleep(20 * time.Millisecond)
		r, err := rootRows(pdir)
		if err != nil {
			continue
		}
		below := 0
		for v := range r {
			if v < keepFrom {
				below++
			}
		}
		if below == 0 && leafPruneDone(pdir, keepFrom) {
			drained = true
			break
		}
	}
	time.Sleep(60 * time.Millisecond)
	hp.close()
	if !drained {
		c.Obs("v2_prunes_not_drained_within_bound", 1)
		return
	}
	c.Obs("v2_prunes_drained", 1)
	phist := fmt.Sprintf("%s; then DeleteVersionsTo(%d) (last checkpoint not after it: %d), drained, closed, reopened", hist, n, keepFrom)
	for t := keepFrom; t <= latest; t++ {
		h2, err := openV2(pdir, cfg)
		if err != nil {
			return
		}
		tag := "after-prune"
		if t == latest {
			tag = "after-prune-latest"
		}
		if err := h2.tree.LoadVersion(t); err != nil {
			c.Violate(int(t), "v2p|"+tag+"|load-error", "LoadVersion(%d) fails after pruning to %d: %v; %s", t, n, err, phist)
		} else {
			checkLoaded(c, h2.tree, t, x.M.Vers[t], x.hashes[t], x.universe, tag, phist)
			c.Obs("v2_versions_loaded_after_prune", 1)
		}
		h2.close()
		if len(c.Res.Violations) > 2 {
			return
		}
	}
}

func snapshotRoundTrip(c *fw.Ctx, x *v2History, cfg v2cfg, sdir, hist string) {
	latest := x.M.Latest
	hs, err := openV2(sdir, cfg)
	if err != nil {
		return
	}
	if err := hs.tree.LoadVersion(latest); err != nil {
		hs.close()
		return
	}
	if x.M.Vers[latest] == nil || len(x.M.Vers[latest]) == 0 {
		hs.close()
		return // an empty tree has nothing to snapshot
	}
	if err := hs.tree.SaveSnapshot(); err != nil {
		c.Violate(int(latest), "v2p|snapshot|save-error", "SaveSnapshot at version %d: %v; %s", latest, err, hist)
		hs.close()
		return
	}
	hs.close()
	h2, err := openV2(sdir, cfg)
	if err != nil {
		return
	}
	defer h2.close()
	if err := h2.tree.LoadSnapshot(latest, iavl2.PreOrder); err != nil {
		c.Violate(int(latest), "v2p|snapshot|load-error", "LoadSnapshot(%d, PreOrder): %v; %s", latest, err, hist)
		return
	}
	checkLoaded(c, h2.tree, latest, x.M.Vers[latest], x.hashes[latest], x.universe, "snapshot", hist)
	c.Obs("v2_snapshots_loaded", 1)
	// Export -> WriteSnapshot into a fresh store, pre- and post-order
	for _, order := range []iavl2.TraverseOrderType{iavl2.PreOrder, iavl2.PostOrder} {
		oname := map[iavl2.TraverseOrderType]string{iavl2.PreOrder: "preorder", iavl2.PostOrder: "postorder"}[order]
		src, err := openV2(sdir, cfg)
		if err != nil {
			return
		}
		if err := src.tree.LoadVersion(latest); err != nil {
			src.close()
			return
		}
		ddir := sdir + "-dst-" + oname
		os.RemoveAll(ddir)
		os.MkdirAll(ddir, 0o755)
		dst, err := openV2(ddir, cfg)
		if err != nil {
			src.close()
			return
		}
		exp := src.tree.Export(order)
		root, err := dst.sql.WriteSnapshot(context.Background(), latest, exp.Next,
			iavl2.SnapshotOptions{StoreLeafValues: true, WriteCheckpoint: true, TraverseOrder: order})
		src.close()
		if err != nil {
			c.Violate(int(latest), "v2p|snapshot-"+oname+"|write-error", "Export(%s) -> WriteSnapshot into a fresh store at version %d: %v; %s", oname, latest, err, hist)
			dst.close()
			os.RemoveAll(ddir)
			continue
		}
		if root == nil || !bytes.Equal(rootHashOf(root), x.hashes[latest]) {
			c.Violate(int(latest), "v2p|snapshot-"+oname+"|root-hash", "WriteSnapshot(%s) rebuilt a root with hash %x, the source version %d has %x; %s", oname, rootHashOf(root), latest, x.hashes[latest], hist)
		}
		dst.close()
		// the fresh store must load that version
		d2, err := openV2(ddir, cfg)
		if err == nil {
			if err := d2.tree.LoadSnapshot(latest, order); err != nil {
				c.Violate(int(latest), "v2p|snapshot-"+oname+"|load-error", "LoadSnapshot(%d,%s) on the store written by WriteSnapshot: %v; %s", latest, oname, err, hist)
			} else {
				checkLoaded(c, d2.tree, latest, x.M.Vers[latest], x.hashes[latest], x.universe, "snapshot-"+oname, hist)
				c.Obs("v2_snapshots_written_"+oname, 1)
			}
			d2.close()
		}
		os.RemoveAll(ddir)
	}
}

func rootHashOf(n *iavl2.Node) []byte {
	if n == nil {
		return nil
	}
	return n.GetHash()
}
