package checks

import (
	"bytes"
	"encoding/binary"
	"errors"
	"fmt"
	"math"
	"math/rand"
	"runtime/debug"
	"time"

	"github.com/cosmos/iavl"
	ics23 "github.com/cosmos/ics23/go"

	"verif/internal/fw"
	"verif/internal/ref"
	"verif/internal/seam"
	"verif/internal/v1x"
)

// exportStream drains an exporter.
func exportStream(it *iavl.ImmutableTree, compress bool) ([]*iavl.ExportNode, error) {
	exp, err := it.Export()
	if err != nil {
		return nil, err
	}
	defer exp.Close()
	var src iavl.NodeExporter = exp
	if compress {
		src = iavl.NewCompressExporter(exp)
	}
	var out []*iavl.ExportNode
	for {
		n, err := src.Next()
		if err != nil {
			if errors.Is(err, iavl.ErrorExportDone) {
				return out, nil
			}
			return out, err
		}
		out = append(out, n)
		if len(out) > 1<<22 {
			return out, fmt.Errorf("export does not terminate")
		}
	}
}

func importStream(t *iavl.MutableTree, version int64, nodes []*iavl.ExportNode, compress bool) error {
	imp, err := t.Import(version)
	if err != nil {
		return fmt.Errorf("Import: %w", err)
	}
	defer imp.Close()
	var dst iavl.NodeImporter = imp
	if compress {
		dst = iavl.NewCompressImporter(imp)
	}
	for _, n := range nodes {
		c := *n
		if err := dst.Add(&c); err != nil {
			return fmt.Errorf("Add: %w", err)
		}
	}
	return imp.Commit()
}

// checkRoundTrip exports version v of e, compares the stream with R, imports it (plain and
// compressed) into fresh stores and continues the history there.
func checkRoundTrip(e *v1x.Env, v int64, universe [][]byte, rng *rand.Rand, light bool) {
	c := e.C
	it, err := e.T.GetImmutable(v)
	if err != nil {
		e.Bad("exim|export|getimmutable", "%v", err)
		return
	}
	want := ref.Export(e.R.Roots[v])
	for _, compress := range []bool{false, true} {
		tag := "plain"
		if compress {
			tag = "compressed"
		}
		stream, err := exportStream(it, false)
		if err != nil {
			e.Bad("exim|export|error", "export of version %d: %v", v, err)
			return
		}
		if !compress {
			same := len(stream) == len(want)
			for i := 0; same && i < len(want); i++ {
				g, w := stream[i], want[i]
				same = bytes.Equal(g.Key, w.Key) && bytes.Equal(g.Value, w.Value) && g.Version == w.Version && g.Height == w.Height && (g.Value == nil) == (w.Value == nil || w.Height > 0)
			}
			if !same {
				cls := "content"
				if len(stream) < len(want) {
					cls = "short"
				} else if len(stream) > len(want) {
					cls = "long"
				}
				e.Bad("exim|export|stream-"+cls, "export of version %d yields %d nodes, the reference post-order stream has %d: got %s want %s", v, len(stream), len(want), streamStr(stream), refStreamStr(want))
				return
			}
			c.Obs("export_streams_compared", 1)
			c.Obs("export_nodes_compared", len(stream))
		}
		if compress {
			if stream, err = exportStream(it, true); err != nil {
				e.Bad("exim|export|error", "compressed export of version %d: %v", v, err)
				return
			}
		}
		cfg := v1x.Config{Cache: []int{0, 3, 1000}[rng.Intn(3)], Fast: rng.Intn(2) == 0, Backend: "mem", Flush: []int{0, 300}[rng.Intn(2)]}
		if e.Cfg.Backend == "prefix" {
			cfg.Backend = "prefix" // the destination of the import is a prefix view as well
		}
		e2, err := v1x.NewEnv(c, cfg)
		if err != nil {
			return
		}
		if err := importStream(e2.T, v, stream, compress); err != nil {
			e.Bad("exim|import|"+tag+"-error", "importing the %s export of version %d (%d nodes): %v", tag, v, len(stream), err)
			e2.Close()
			return
		}
		// oracles of the imported tree: only version v exists
		snap := e.M.Vers[v]
		e2.M.Vers[v] = snap.Clone()
		e2.M.First, e2.M.Latest, e2.M.Base, e2.M.Work = v, v, v, snap.Clone()
		e2.M.Initial = 0
		e2.R.Roots[v] = e.R.Roots[v]
		e2.R.Hashes[v] = e.R.Hashes[v]
		e2.R.Work, e2.R.Base, e2.R.Initial = e.R.Roots[v], v, 0
		if got := e2.T.Hash(); !bytes.Equal(got, e.R.Hashes[v]) {
			e2.Bad("exim|import|"+tag+"-hash", "imported version %d has root hash %x, the source has %x", v, got, e.R.Hashes[v])
		}
		if lv, _ := e2.T.GetLatestVersion(); lv != v {
			e2.Bad("exim|import|"+tag+"-version", "imported tree reports latest version %d, want %d", lv, v)
		}
		// exactly the imported version is visible, also for a freshly opened handle
		h2 := e2.OpenHandle(cfg)
		if _, err := h2.Load(); err != nil {
			e2.Bad("exim|import|"+tag+"-reopen", "Load() on the imported store: %v", err)
		} else {
			for hi, h := range []*iavl.MutableTree{e2.T, h2} {
				if av := h.AvailableVersions(); len(av) != 1 || int64(av[0]) != v {
					e2.Bad("exim|import|"+tag+"-available", "after importing version %d AvailableVersions()=%v (handle %d)", v, av, hi)
				}
				if v > 1 && h.VersionExists(v-1) {
					e2.Bad("exim|import|"+tag+"-phantom-version", "after importing version %d, VersionExists(%d) is true (handle %d)", v, v-1, hi)
				}
			}
		}
		if !light {
			e2.CheckAllVersions(universe, 2)
		} else if i2, err := e2.T.GetImmutable(v); err == nil {
			// big tree: contents by iteration only
			var gk, gv []string
			i2.Iterate(func(k, val []byte) bool { gk = append(gk, string(k)); gv = append(gv, string(val)); return false })
			keys := snap.Keys()
			same := len(gk) == len(keys)
			for i := 0; same && i < len(keys); i++ {
				same = gk[i] == keys[i] && gv[i] == snap[keys[i]]
			}
			if !same {
				e2.Bad("exim|import|"+tag+"-contents", "imported big tree (%d keys) iterates to %d keys / different pairs", len(keys), len(gk))
			}
		}
		// proofs of the imported version verify against the source root
		if i2, err := e2.T.GetImmutable(v); err == nil && len(snap) > 0 && !light {
			for _, k := range v1x.Probes(universe, snap) {
				if !v1x.ProofCheckable(snap, k) {
					continue
				}
				pr, err := i2.GetProof(k)
				if err != nil {
					e2.Bad("exim|import|"+tag+"-proof-error", "GetProof(%q) on the imported tree: %v", k, err)
					continue
				}
				ok := false
				if val, present := snap[string(k)]; present {
					ok = ics23.VerifyMembership(ics23.IavlSpec, e.R.Hashes[v], pr, k, []byte(val))
				} else {
					ok = ics23.VerifyNonMembership(ics23.IavlSpec, e.R.Hashes[v], pr, k)
				}
				if !ok {
					e2.Bad("exim|import|"+tag+"-proof", "proof of %q from the imported tree does not verify against the source root", k)
				}
				c.Obs("imported_proofs_verified", 1)
			}
		}
		// the imported store is canonical too (C12/C13 monitors)
		e2.AuditStorage(cfg.Fast)
		// identical behaviour under further writes: future hashes must equal the reference continuing from v
		for j := 0; j < 2+rng.Intn(3) && !e2.Dead && len(universe) > 0; j++ {
			for w := 0; w < 1+rng.Intn(4); w++ {
				k := universe[rng.Intn(len(universe))]
				if rng.Intn(4) == 0 {
					e2.Apply(v1x.Op{Kind: "rm", K: k}, true)
				} else {
					e2.Apply(v1x.Op{Kind: "set", K: k, V: []byte(fmt.Sprintf("n%d-%d", j, w))}, true)
				}
			}
			out := e2.Apply(v1x.Op{Kind: "save"}, true)
			if out.Err == nil && !bytes.Equal(out.Hash, out.Expect.Hash) {
				e2.Bad("exim|import|"+tag+"-future-hash", "commit %d on top of the imported version %d returned %x, the reference continuing the source history says %x", out.Version, v, out.Hash, out.Expect.Hash)
			}
			c.Obs("future_commits_compared", 1)
		}
		if !light {
			e2.CheckAllVersions(universe, 3)
		}
		e2.Close()
		c.Obs("imports_"+tag, 1)
	}
}

func streamStr(s []*iavl.ExportNode) string {
	var b bytes.Buffer
	for i, n := range s {
		if i > 24 {
			b.WriteString("…")
			break
		}
		fmt.Fprintf(&b, "(%q,%q,v%d,h%d) ", n.Key, n.Value, n.Version, n.Height)
	}
	return b.String()
}

func refStreamStr(s []ref.ExportNode) string {
	var b bytes.Buffer
	for i, n := range s {
		if i > 24 {
			b.WriteString("…")
			break
		}
		fmt.Fprintf(&b, "(%q,%q,v%d,h%d) ", n.Key, n.Value, n.Version, n.Height)
	}
	return b.String()
}

// ---- hostile streams ----

func validStream(rng *rand.Rand) ([]*iavl.ExportNode, int64) {
	h := ref.NewHistory(0)
	n := rng.Intn(12)
	nver := 1 + rng.Intn(3)
	for v := 0; v < nver; v++ {
		for i := 0; i < n; i++ {
			k := []byte{byte('a' + rng.Intn(16))}
			if rng.Intn(5) == 0 {
				h.Remove(k)
			} else {
				h.Set(k, []byte{byte(i), byte(v)})
			}
		}
		h.Commit()
	}
	var out []*iavl.ExportNode
	for _, x := range ref.Export(h.Roots[h.Base]) {
		out = append(out, &iavl.ExportNode{Key: x.Key, Value: x.Value, Version: x.Version, Height: x.Height})
	}
	return out, h.Base
}

func hostileNode(rng *rand.Rand) *iavl.ExportNode {
	n := &iavl.ExportNode{}
	switch rng.Intn(4) {
	case 0:
		n.Key = nil
	case 1:
		n.Key = []byte{}
	default:
		n.Key = []byte{byte('a' + rng.Intn(8))}
	}
	switch rng.Intn(4) {
	case 0:
		n.Value = nil
	case 1:
		n.Value = []byte{}
	default:
		n.Value = []byte{byte(rng.Intn(256))}
	}
	n.Version = []int64{-1, 0, 1, 2, 3, 5, math.MaxInt64, math.MinInt64, -5, 1 << 40}[rng.Intn(10)]
	n.Height = []int8{0, 0, 0, 1, 1, 2, 3, -1, -128, 127, 5}[rng.Intn(11)]
	return n
}

func mutateStream(rng *rand.Rand, s []*iavl.ExportNode) []*iavl.ExportNode {
	out := make([]*iavl.ExportNode, 0, len(s)+2)
	for _, n := range s {
		c := *n
		out = append(out, &c)
	}
	for m := 0; m < 1+rng.Intn(3); m++ {
		if len(out) == 0 {
			out = append(out, hostileNode(rng))
			continue
		}
		i := rng.Intn(len(out))
		switch rng.Intn(10) {
		case 0: // drop
			out = append(out[:i], out[i+1:]...)
		case 1: // duplicate
			c := *out[i]
			out = append(out[:i+1], append([]*iavl.ExportNode{&c}, out[i+1:]...)...)
		case 2: // swap
			j := rng.Intn(len(out))
			out[i], out[j] = out[j], out[i]
		case 3: // truncate
			out = out[:i]
		case 4:
			out[i].Height = []int8{-1, 0, 1, 2, 127, -128, out[i].Height + 1}[rng.Intn(7)]
		case 5:
			out[i].Version = []int64{-1, 0, math.MaxInt64, math.MinInt64, out[i].Version + 1, 1 << 33}[rng.Intn(6)]
		case 6:
			out[i].Key = [][]byte{nil, {}, {0}}[rng.Intn(3)]
		case 7:
			out[i].Value = [][]byte{nil, {}, {1}}[rng.Intn(3)]
		case 8: // leaf/inner confusion
			if out[i].Height == 0 {
				out[i].Height = 1
				out[i].Value = nil
			} else {
				out[i].Height = 0
				out[i].Value = []byte("x")
			}
		case 9:
			out[i] = hostileNode(rng)
		}
	}
	return out
}

func runHostileImports(c *fw.Ctx, n int) {
	rng := c.Rng
	c.Res.Digest = fw.DigestOf("hostile", c.Index)
	c.Res.Nontrivial = true
	for i := 0; i < n; i++ {
		var stream []*iavl.ExportNode
		var version int64
		switch rng.Intn(4) {
		case 0:
			for j := 0; j < rng.Intn(8); j++ {
				stream = append(stream, hostileNode(rng))
			}
			version = []int64{0, 1, 3, 5, 1 << 20}[rng.Intn(5)]
		default:
			s, v := validStream(rng)
			stream, version = mutateStream(rng, s), v
			if rng.Intn(6) == 0 {
				version = []int64{0, 1, v - 1, v + 1}[rng.Intn(4)]
			}
		}
		if version < 0 {
			version = 0
		}
		store := seam.NewMemStore()
		compress := rng.Intn(3) == 0
		if compress && len(stream) > 0 && rng.Intn(2) == 0 {
			// the compressed stream carries keys as uvarint(shared prefix length) + suffix: announce
			// prefix lengths around every width the decoder may convert them to
			for m := 0; m < 1+rng.Intn(2); m++ {
				i := rng.Intn(len(stream))
				shared := []uint64{0, 1, 2, 127, 128, 255, 256, 1 << 31, 1<<31 - 1, 1 << 32, 1<<63 - 1, 1 << 63, 1<<63 + 1, math.MaxUint64, math.MaxUint64 - 1}[rng.Intn(15)]
				k := binary.AppendUvarint(nil, shared)
				k = append(k, [][]byte{nil, {'a'}, {'z', 'z'}}[rng.Intn(3)]...)
				cp := *stream[i]
				cp.Key = k
				stream[i] = &cp
			}
			c.Obs("hostile_compressed_streams_with_crafted_prefix_lengths", 1)
		}
		stopAtError := rng.Intn(2) == 0
		fast := rng.Intn(2) == 0
		committed := false
		desc := func() string {
			return fmt.Sprintf("Import(%d) compress=%v stopAtFirstError=%v fast=%v stream=%s", version, compress, stopAtError, fast, streamStr(stream))
		}
		func() {
			defer func() {
				if r := recover(); r != nil {
					c.Violate(i, "exim|hostile|panic|"+fw.PanicSite(string(debugStack())), "importer panicked: %v; %s", r, desc())
				}
			}()
			t := iavl.NewMutableTree(store, 0, !fast, iavl.NewNopLogger())
			imp, err := t.Import(version)
			if err != nil {
				c.Obs("hostile_import_rejected_at_open", 1)
				return
			}
			defer imp.Close()
			var dst iavl.NodeImporter = imp
			if compress {
				dst = iavl.NewCompressImporter(imp)
			}
			failed := false
			for _, nd := range stream {
				cp := *nd
				if err := dst.Add(&cp); err != nil {
					failed = true
					c.Obs("hostile_add_errors", 1)
					if stopAtError {
						return
					}
				}
			}
			if err := imp.Commit(); err == nil {
				committed = true
				if failed {
					c.Obs("hostile_commit_ok_after_add_error", 1)
				}
			} else {
				c.Obs("hostile_commit_errors", 1)
			}
		}()
		if len(c.Res.Violations) > 2 {
			return
		}
		if committed {
			c.Obs("hostile_streams_committed", 1)
		} else {
			// nothing may be visible: a fresh tree loads version 0 and lists no versions
			func() {
				defer func() {
					if r := recover(); r != nil {
						c.Violate(i, "exim|hostile|reopen-panic", "reopening after a failed import panicked: %v; %s", r, desc())
					}
				}()
				t := iavl.NewMutableTree(store, 0, true, iavl.NewNopLogger())
				lv, err := t.Load()
				if err != nil || lv != 0 || len(t.AvailableVersions()) != 0 || t.VersionExists(version) {
					c.Violate(i, "exim|hostile|visible-after-failure", "the import did not commit, yet a fresh tree on the store sees Load()=(%d,%v) versions=%v; %s", lv, err, t.AvailableVersions(), desc())
				}
			}()
			c.Obs("hostile_streams_failed_invisible", 1)
		}
		c.Obs("hostile_streams", 1)
	}
}

func init() {
	fw.Register(&fw.Check{
		ID:          "C10",
		Level:       "exploration",
		Cases:       func(tier string) int { return tierN(tier, 640, 20000) },
		CaseTimeout: 300e9,
		Rule: "two case kinds by index mod 2. (0) fidelity: one history (10-40 ops; incl. empty tree, single leaf, versions whose root is inherited from an earlier version (reference root), pruning, rollback; 1 case in 39 (quick) / 9 (thorough) builds a tree of >10000 leaves so the import needs three 10000-node batches; for that tree every batch write is additionally failed once: the import must report it, leave nothing visible, and return (a call that never returns is decided from the goroutine dump: caller blocked inside iavl, nobody else inside iavl)); at up to 3 retained versions the Exporter stream is compared node by node with the reference post-order stream of R (key, value, version, height; must end with ErrorExportDone), then imported plain AND through CompressExporter->CompressImporter into fresh stores (random cache / fast index / flush threshold): root hash, latest version, the full model read battery, ICS-23 proofs against the SOURCE root, the raw-storage audit, and 2-4 further commits whose hashes must equal the reference continuing the source history. " +
			"(1) totality: 150 (quick) / 1000 (thorough) hostile ExportNode sequences per case - mutations of valid streams (drop, duplicate, swap, truncate, heights/versions negative/0/too large/MaxInt64, nil or empty key/value, leaf/inner confusion; for the compressed importer also keys announcing shared-prefix lengths of 0, 1, 127..256, 2^31, 2^32, 2^63-1, 2^63, 2^64-1) and random sequences - fed to Add..Commit (plain or compressed, stopping at the first error or ploughing on): a panic is a violation; if Commit did not succeed, a fresh tree on that store must Load() version 0 with no available versions. A hang trips the per-case watchdog. " +
			"distinct = hash(kind, config, ops / index); non-trivial = fidelity: >=1 round trip of a non-empty version with >=1 future commit; totality: always.",
		Assumptions: []string{"R defines the export stream and future hashes; M the contents; ics23 verifier trusted"},
		Run: func(c *fw.Ctx) {
			if c.Index%2 == 1 {
				n := 150
				if c.Tier == "thorough" {
					n = 1000
				}
				runHostileImports(c, n)
				return
			}
			big := (c.Tier != "thorough" && c.Index%78 == 40) || (c.Tier == "thorough" && c.Index%18 == 10)
			w := map[string]int{"set": 40, "rm": 14, "save": 24, "rollback": 2, "reopen": 4, "load": 1, "delto": 5, "lfo": 2, "delfrom": 1}
			p := &v1x.GenParams{MinOps: 10, MaxOps: 40, W: w, MaxKeys: 10, InvalidPct: 2, Backends: []string{"mem"}, Initials: []int64{0, 0, 1, 9, 64}}
			pl := v1x.MakePlan(c.Rng, p)
			if v1x.EmptyKeyVariant(pl, c.Index/2) {
				c.Obs("histories_with_the_empty_key", 1)
			}
			if (c.Index/2)%6 == 4 && !big {
				pl.Cfg.Backend = "prefix" // (PrefixDB over MemDB, prefix slice with spare capacity)
			}
			c.Res.Digest = fw.DigestOf("fidelity", big, pl.Cfg, pl.Summary(1000))
			if c.Index < 4 {
				c.Res.Sample = pl.Summary(60)
			}
			e, err := v1x.NewEnv(c, pl.Cfg)
			if err != nil {
				c.Violate(0, "exec|open|error", "%v", err)
				return
			}
			defer e.Close()
			if big {
				for i := 0; i < 10400 && !e.Dead; i++ {
					e.Apply(v1x.Op{Kind: "set", K: []byte(fmt.Sprintf("big%05d", (i*7919)%10400)), V: []byte{byte(i)}}, false)
					if i == 6000 {
						e.Apply(v1x.Op{Kind: "save"}, false)
					}
				}
				e.Apply(v1x.Op{Kind: "save"}, false)
				e.Log = e.Log[:0]
				e.Log = append(e.Log, "…10400 sets in two versions…")
				c.Obs("big_trees", 1)
				if e.Dead {
					return
				}
				// the rest of the history is planned from the state reached here (a plan made for an
				// empty tree would not respect the planner's own preconditions after two extra versions)
				cfg := pl.Cfg
				pl = v1x.MakePlanFrom(c.Rng, p, &v1x.Oracle{M: e.M, R: e.R}, pl.Universe)
				pl.Cfg = cfg
			}
			for _, op := range pl.Ops {
				e.Apply(op, false)
				if e.Dead {
					break
				}
				c.State(e.AbstractState())
			}
			if e.Dead || e.M.Latest == 0 {
				return
			}
			vs := e.M.Versions()
			c.Rng.Shuffle(len(vs), func(i, j int) { vs[i], vs[j] = vs[j], vs[i] })
			done := 0
			for _, v := range vs {
				if done >= 3 || (big && done >= 1) {
					break
				}
				if big && v != e.M.Latest {
					continue
				}
				done++
				root := e.R.Roots[v]
				switch {
				case root == nil:
					c.Obs("roundtrip_empty_tree", 1)
				case root.IsLeaf():
					c.Obs("roundtrip_single_leaf", 1)
				case root.Version != v:
					c.Obs("roundtrip_reference_root", 1)
				}
				checkRoundTrip(e, v, pl.Universe, c.Rng, big)
				if big && len(c.Res.Violations) == 0 {
					checkFaultedBigImport(e, v)
				}
				if len(c.Res.Violations) > 0 {
					break
				}
			}
			c.Obs("steps", e.Step)
			c.Res.Nontrivial = c.Res.Obs["future_commits_compared"] > 0
		},
		Floor: func(obs map[string]int, evals, nontrivial int) string {
			for _, k := range []string{"export_streams_compared", "imports_plain", "imports_compressed", "roundtrip_empty_tree", "roundtrip_single_leaf", "roundtrip_reference_root", "hostile_streams_failed_invisible", "hostile_streams_committed"} {
				if obs[k] < 10 {
					return fmt.Sprintf("observation %s=%d below floor 10", k, obs[k])
				}
			}
			if obs["big_trees"] < 1 || obs["hostile_streams"] < 10000 {
				return fmt.Sprintf("too few observations: %v", obs)
			}
			return ""
		},
	})
}

func debugStack() []byte { return debug.Stack() }

// checkFaultedBigImport: an import of more than 10000 nodes writes its nodes in background
// batches; each of the (few) batch writes fails once: Commit must then report an error and nothing
// of the import may be visible to a fresh tree.
func checkFaultedBigImport(e *v1x.Env, v int64) {
	c := e.C
	it, err := e.T.GetImmutable(v)
	if err != nil {
		return
	}
	stream, err := exportStream(it, false)
	if err != nil || len(stream) <= 10000 {
		return
	}
	// count the batch writes of a fault-free import
	st := seam.NewMemStore()
	w := seam.NewWrap(st)
	w.ArmFault(-1, seam.KBWrite)
	t := iavl.NewMutableTree(w, 0, true, iavl.NewNopLogger())
	if err := importStream(t, v, stream, false); err != nil {
		return
	}
	n := w.Seq()
	for i := 0; i < n; i++ {
		st := seam.NewMemStore()
		w := seam.NewWrap(st)
		t := iavl.NewMutableTree(w, 0, true, iavl.NewNopLogger())
		w.ArmFault(i, seam.KBWrite)
		var err error
		done, deadlocked, ev := fw.Bounded(60*time.Second, "github.com/cosmos/iavl", func() { err = importStream(t, v, stream, false) })
		if !done {
			if deadlocked {
				e.Bad("exim|import|hang-after-failed-write", "batch write %d of %d of a %d-node import failed; Add/Commit/Close never returned: the calling goroutine is blocked inside iavl and no other goroutine is left inside iavl that could wake it:\n%s", i, n, len(stream), ev)
			} else {
				c.Res.Inconcl = "faulted big import: " + ev
			}
			return
		}
		fired := w.Disarm()
		if len(fired) == 0 {
			continue
		}
		if err == nil {
			e.Bad("exim|import|write-fault-reported-success", "batch write %d of %d of a %d-node import failed, yet Add/Commit reported success", i, n, len(stream))
			return
		}
		f := iavl.NewMutableTree(st, 0, true, iavl.NewNopLogger())
		lv, lerr := f.Load()
		if lerr != nil || lv != 0 || len(f.AvailableVersions()) != 0 {
			e.Bad("exim|import|visible-after-failed-write", "batch write %d of %d of a %d-node import failed (Commit returned %v), yet a fresh tree sees Load()=(%d,%v) versions=%v", i, n, len(stream), err, lv, lerr, f.AvailableVersions())
			return
		}
		c.Obs("big_import_write_faults_checked", 1)
	}
}
