package checks

import (
	"bytes"
	"fmt"
	"math/rand"
	"os"
	"path/filepath"
	"regexp"
	"runtime"
	"sort"
	"strings"
	"sync"
	"sync/atomic"
	"time"

	corestore "cosmossdk.io/core/store"
	"github.com/anishathalye/porcupine"
	"github.com/cosmos/iavl"
	dbm "github.com/cosmos/iavl/db"
	ics23 "github.com/cosmos/ics23/go"

	"verif/internal/fw"
	"verif/internal/model"
	"verif/internal/ref"
)

// delayStore yields the processor around storage calls without adding any synchronisation of
// its own (race mode: widens windows, adds no happens-before edges).
type delayStore struct {
	corestore.KVStoreWithBatch
	n atomic.Uint64
}

func (d *delayStore) maybeYield() {
	x := d.n.Add(1)
	if x%7 == 0 {
		runtime.Gosched()
	}
	if x%257 == 0 {
		time.Sleep(20 * time.Microsecond)
	}
}

func (d *delayStore) Get(k []byte) ([]byte, error) {
	d.maybeYield()
	v, err := d.KVStoreWithBatch.Get(k)
	d.maybeYield()
	return v, err
}
func (d *delayStore) Has(k []byte) (bool, error) { d.maybeYield(); return d.KVStoreWithBatch.Has(k) }

// its batches linger a little AFTER the inner write has been applied: whatever the caller does
// between "the batch is visible in the store" and its own bookkeeping happens in a wider window
func (d *delayStore) NewBatch() corestore.Batch {
	return &delayBatch{Batch: d.KVStoreWithBatch.NewBatch()}
}

func (d *delayStore) NewBatchWithSize(n int) corestore.Batch {
	return &delayBatch{Batch: d.KVStoreWithBatch.NewBatchWithSize(n)}
}

type delayBatch struct{ corestore.Batch }

func (b *delayBatch) Write() error {
	err := b.Batch.Write()
	runtime.Gosched()
	time.Sleep(100 * time.Microsecond)
	return err
}

func (b *delayBatch) WriteSync() error {
	err := b.Batch.WriteSync()
	runtime.Gosched()
	time.Sleep(100 * time.Microsecond)
	return err
}

type c06cfg struct {
	cache   int
	fast    bool
	async   bool
	backend string
	readers int
	rounds  int
	keys    int
	// prepopulate: the concurrent phase runs on a fresh handle over an existing database
	prepopulate bool
	// pinLatest: the export is opened on the version that is the latest one at that moment
	pinLatest bool
	// staleIndex: the existing database was written with the fast index ENABLED; the concurrent
	// phase runs with it disabled (the persisted index is no longer maintained and must not be used)
	staleIndex bool
}

func (c c06cfg) String() string {
	return fmt.Sprintf("cache=%d fast=%v asyncPruning=%v backend=%s readers=%d rounds=%d keys=%d", c.cache, c.fast, c.async, c.backend, c.readers, c.rounds, c.keys)
}

type visEvent struct {
	kind    string // commit prune open
	version int64
}

// c06world is the shared registry of the writer and the readers (the monitor's own state;
// guarded by mu, never touched by iavl).
type c06world struct {
	mu        sync.Mutex
	snaps     map[int64]model.Snap
	hashes    map[int64][]byte
	published []int64 // committed, returned by SaveVersion, not requested for deletion
	inUse     map[int64]int
	viol      []fw.Violation
	obs       map[string]int
	ops       []porcupine.Operation
	clock     atomic.Int64
	first     int64
	// the version being committed right now and its contents: a reader that manages to open it
	// before SaveVersion has returned must already read exactly this
	pendingVer  int64
	pendingSnap model.Snap
}

func (w *c06world) bad(sig, f string, a ...any) {
	w.mu.Lock()
	if len(w.viol) < 20 {
		w.viol = append(w.viol, fw.Violation{Sig: sig, Detail: fmt.Sprintf(f, a...)})
	}
	w.mu.Unlock()
}

func (w *c06world) count(k string, n int) {
	w.mu.Lock()
	w.obs[k] += n
	w.mu.Unlock()
}

func (w *c06world) record(client int, in visEvent, call int64, out string, ret int64) {
	w.mu.Lock()
	w.ops = append(w.ops, porcupine.Operation{ClientId: client, Input: in, Call: call, Output: out, Return: ret})
	w.mu.Unlock()
}

// acquire picks a published version and pins it against the harness' own prune requests.
func (w *c06world) acquire(rng *rand.Rand, preferLatest bool) (int64, model.Snap, []byte, bool) {
	w.mu.Lock()
	defer w.mu.Unlock()
	if len(w.published) == 0 {
		return 0, nil, nil, false
	}
	v := w.published[rng.Intn(len(w.published))]
	if preferLatest {
		v = w.published[len(w.published)-1]
	}
	w.inUse[v]++
	return v, w.snaps[v], w.hashes[v], true
}

func (w *c06world) release(v int64) {
	w.mu.Lock()
	w.inUse[v]--
	w.mu.Unlock()
}

// readBattery runs reader operations on a committed version and compares with its snapshot.
func readBattery(w *c06world, t *iavl.MutableTree, v int64, snap model.Snap, hash []byte, rng *rand.Rand, tag string, all bool) {
	it, err := t.GetImmutable(v)
	if err != nil {
		w.bad("conc|"+tag+"|getimmutable", "GetImmutable(%d) of a committed, undeleted version failed: %v", v, err)
		return
	}
	keys := snap.Keys()
	probe := func() []byte {
		if len(keys) > 0 && rng.Intn(4) != 0 {
			return []byte(keys[rng.Intn(len(keys))])
		}
		return []byte(fmt.Sprintf("k%03d", rng.Intn(40)))
	}
	nops := 6
	if all {
		nops = 40
	}
	for i := 0; i < nops; i++ {
		k := probe()
		want, present := snap[string(k)]
		op := rng.Intn(8)
		if all {
			op = i % 8
		}
		if strings.HasPrefix(tag, "parked@") || tag == "after-pause" {
			// the (protocol point x reader operation) matrix: which cells were actually overlapped
			w.count("cell|"+tag+"|"+[]string{"Get", "GetWithIndex", "Has", "Iterator", "IterateRange", "GetProof", "Export", "Hash+GetByIndex"}[op], 1)
		}
		switch op {
		case 0:
			got, err := it.Get(k)
			if err != nil || (got != nil) != present || (present && string(got) != want) {
				w.bad("conc|"+tag+"|get", "version %d Get(%q)=(%q,%v), committed contents say %q (present=%v)", v, k, got, err, want, present)
			}
			w.count("reads_Get", 1)
		case 1:
			idx, got, err := it.GetWithIndex(k)
			rank, _ := snap.Rank(string(k))
			if err != nil || (got != nil) != present || (present && string(got) != want) || idx != int64(rank) {
				w.bad("conc|"+tag+"|getwithindex", "version %d GetWithIndex(%q)=(%d,%q,%v), want (%d,%q)", v, k, idx, got, err, rank, want)
			}
			w.count("reads_GetWithIndex", 1)
		case 2:
			has, err := it.Has(k)
			if err != nil || has != present {
				w.bad("conc|"+tag+"|has", "version %d Has(%q)=(%v,%v), want %v", v, k, has, err, present)
			}
			w.count("reads_Has", 1)
		case 3:
			itr, err := it.Iterator(nil, nil, rng.Intn(2) == 0)
			if err != nil {
				w.bad("conc|"+tag+"|iterator-error", "version %d Iterator: %v", v, err)
				break
			}
			n := 0
			okAll := true
			for ; itr.Valid(); itr.Next() {
				if x, ok := snap[string(itr.Key())]; !ok || x != string(itr.Value()) {
					okAll = false
				}
				n++
			}
			ierr := itr.Error()
			itr.Close()
			if !okAll || n != len(snap) || ierr != nil {
				w.bad("conc|"+tag+"|iterator", "version %d Iterator yielded %d pairs (all matching=%v, err=%v), committed contents have %d", v, n, okAll, ierr, len(snap))
			}
			w.count("reads_Iterator", 1)
		case 4:
			n := 0
			okAll := true
			it.IterateRange(nil, nil, true, func(k, val []byte) bool {
				if x, ok := snap[string(k)]; !ok || x != string(val) {
					okAll = false
				}
				n++
				return false
			})
			if !okAll || n != len(snap) {
				w.bad("conc|"+tag+"|iteraterange", "version %d IterateRange yielded %d pairs (all matching=%v), committed contents have %d", v, n, okAll, len(snap))
			}
			w.count("reads_IterateRange", 1)
		case 5:
			if len(snap) == 0 {
				break
			}
			pr, err := it.GetProof(k)
			if err != nil {
				w.bad("conc|"+tag+"|getproof-error", "version %d GetProof(%q): %v", v, k, err)
				break
			}
			ok := false
			if present {
				ok = ics23.VerifyMembership(ics23.IavlSpec, hash, pr, k, []byte(want))
			} else {
				ok = ics23.VerifyNonMembership(ics23.IavlSpec, hash, pr, k)
			}
			if !ok {
				w.bad("conc|"+tag+"|proof", "version %d proof of %q does not verify against the root returned at commit", v, k)
			}
			w.count("reads_GetProof", 1)
		case 6:
			if rng.Intn(3) != 0 && !all {
				break
			}
			exp, err := it.Export()
			if err != nil {
				w.bad("conc|"+tag+"|export-error", "version %d Export: %v", v, err)
				break
			}
			leaves, nodes := 0, 0
			okAll := true
			var eerr error
			for {
				n, err := exp.Next()
				if err != nil {
					if err != iavl.ErrorExportDone {
						eerr = err
					}
					break
				}
				nodes++
				if n.Height == 0 {
					leaves++
					if x, ok := snap[string(n.Key)]; !ok || x != string(n.Value) {
						okAll = false
					}
				}
			}
			exp.Close()
			wantNodes := 0
			if len(snap) > 0 {
				wantNodes = 2*len(snap) - 1
			}
			if eerr != nil || !okAll || leaves != len(snap) || nodes != wantNodes {
				w.bad("conc|"+tag+"|export", "version %d export yielded %d nodes / %d leaves (matching=%v, err=%v), expected %d / %d", v, nodes, leaves, okAll, eerr, wantNodes, len(snap))
			}
			w.count("reads_Export", 1)
		case 7:
			if got := it.Hash(); !bytes.Equal(got, hash) {
				w.bad("conc|"+tag+"|hash", "version %d Hash()=%x, commit returned %x", v, got, hash)
			}
			// (MutableTree.GetVersioned is not among the calls the property allows concurrently
			// with the writer: it reads the working tree's fields)
			k2, v2, err := it.GetByIndex(0)
			if len(keys) > 0 && (err != nil || string(k2) != keys[0] || string(v2) != snap[keys[0]]) {
				w.bad("conc|"+tag+"|getbyindex", "version %d GetByIndex(0)=(%q,%q,%v), want (%q,%q)", v, k2, v2, err, keys[0], snap[keys[0]])
			}
			w.count("reads_HashAndGetByIndex", 1)
		}
	}
}

func newC06Store(cfg c06cfg, tmp string, closers *[]func()) (corestore.KVStoreWithBatch, error) {
	switch cfg.backend {
	case "memdb":
		return dbm.NewMemDB(), nil
	case "memdb-delay":
		return &delayStore{KVStoreWithBatch: dbm.NewMemDB()}, nil
	case "prefix-memdb":
		// a store-key style prefix held in a slice with spare capacity, over a delaying MemDB: the
		// way an application mounts one tree among several in one database
		prefix := append(make([]byte, 0, 64), []byte("s/k:distribution/")...)
		return dbm.NewPrefixDB(&delayStore{KVStoreWithBatch: dbm.NewMemDB()}, prefix), nil
	case "goleveldb":
		dir, err := os.MkdirTemp(tmp, "c06ldb")
		if err != nil {
			return nil, err
		}
		d, err := dbm.NewGoLevelDB("t", dir)
		if err != nil {
			return nil, err
		}
		*closers = append(*closers, func() { d.Close(); os.RemoveAll(dir) })
		return d, nil
	}
	return nil, fmt.Errorf("unknown backend %s", cfg.backend)
}

// runConcurrent is one stress execution: 1 writer, N readers, scouts recording the
// visibility history.
func runConcurrent(c *fw.Ctx, cfg c06cfg) {
	var closers []func()
	defer func() {
		for _, f := range closers {
			f()
		}
	}()
	store, err := newC06Store(cfg, c.TmpDir, &closers)
	if err != nil {
		c.Res.Inconcl = err.Error()
		return
	}
	// the yield points inside pruning and cloning only DELAY here (no channel, no lock: a delay adds
	// no happens-before edge, so it widens the window between two steps without hiding a race)
	var yields atomic.Int64
	iavl.SetVerifHook(func(name string) {
		if strings.HasPrefix(name, "prune:") || strings.HasPrefix(name, "clone:") {
			yields.Add(1)
			runtime.Gosched()
			time.Sleep(30 * time.Microsecond)
		}
	})
	defer func() {
		iavl.SetVerifHook(nil)
		c.Obs("stress_yield_points_passed", int(yields.Load()))
	}()
	opts := []iavl.Option{}
	if cfg.async {
		opts = append(opts, iavl.AsyncPruningOption(true))
	}
	w := &c06world{snaps: map[int64]model.Snap{}, hashes: map[int64][]byte{}, inUse: map[int64]int{}, obs: map[string]int{}}
	R := ref.NewHistory(0)
	M := model.New(0)
	seed := c.Rng.Int63()
	// half of the runs start from an existing database opened by a fresh handle (cold caches)
	if cfg.prepopulate {
		t0 := iavl.NewMutableTree(store, cfg.cache, !(cfg.fast || cfg.staleIndex), iavl.NewNopLogger())
		if _, err := t0.Load(); err != nil {
			c.Violate(0, "exec|open|error", "%v", err)
			return
		}
		prng := rand.New(rand.NewSource(seed + 5))
		for v := 0; v < 6; v++ {
			for i := 0; i < cfg.keys; i++ {
				k, val := []byte(fmt.Sprintf("k%03d", prng.Intn(cfg.keys))), []byte(fmt.Sprintf("p%d.%d", v, i))
				t0.Set(k, val)
				M.Set(string(k), string(val))
				R.Set(k, val)
			}
			h, ver, err := t0.SaveVersion()
			if err != nil {
				c.Violate(0, "exec|prepopulate|error", "%v", err)
				return
			}
			R.Commit()
			M.Commit()
			w.snaps[ver], w.hashes[ver] = M.Vers[ver], h
			w.published = append(w.published, ver)
			if w.first == 0 {
				w.first = ver
			}
		}
		t0.Close()
		for _, ver := range w.published {
			call := w.clock.Add(1)
			w.record(0, visEvent{"commit", ver}, call, "ok", w.clock.Add(1))
		}
		w.obs["prepopulated_runs"]++
	}
	t := iavl.NewMutableTree(store, cfg.cache, !cfg.fast, iavl.NewNopLogger(), opts...)
	if _, err := t.Load(); err != nil {
		c.Violate(0, "exec|open|error", "%v", err)
		return
	}
	closers = append(closers, func() { t.Close() })
	var stop atomic.Bool
	var wg sync.WaitGroup
	// readers
	for r := 0; r < cfg.readers; r++ {
		wg.Add(1)
		go func(id int) {
			defer wg.Done()
			rng := rand.New(rand.NewSource(seed + int64(id)*7919))
			for !stop.Load() {
				v, snap, hash, ok := w.acquire(rng, rng.Intn(3) == 0)
				if !ok {
					runtime.Gosched()
					continue
				}
				readBattery(w, t, v, snap, hash, rng, "stress", false)
				w.release(v)
				w.count("reader_rounds", 1)
			}
		}(r)
	}
	// scouts: open arbitrary version numbers, record the visibility history
	for s := 0; s < 2; s++ {
		wg.Add(1)
		go func(id int) {
			defer wg.Done()
			rng := rand.New(rand.NewSource(seed - int64(id) - 1))
			for !stop.Load() {
				w.mu.Lock()
				hi := int64(2)
				if n := len(w.published); n > 0 {
					hi = w.published[n-1] + 2
				}
				lo := w.first - 2
				w.mu.Unlock()
				if lo < 1 {
					lo = 1
				}
				v := lo + int64(rng.Intn(int(hi-lo+1)))
				call := w.clock.Add(1)
				it, err := t.GetImmutable(v)
				ret := w.clock.Add(1)
				out := "ok"
				if err != nil {
					out = "notfound"
				}
				if err == nil {
					// a version that can be opened reads exactly, also while its commit is still in
					// progress (only the newest versions are judged: they are never pruned)
					w.mu.Lock()
					var snap model.Snap
					newest := int64(0)
					if n := len(w.published); n > 0 {
						newest = w.published[n-1]
					}
					if v == w.pendingVer && v > newest {
						snap = w.pendingSnap
					} else if v == newest {
						snap = w.snaps[v]
					}
					w.mu.Unlock()
					if snap != nil {
						for i := 0; i < 3; i++ {
							k := []byte(fmt.Sprintf("k%03d", rng.Intn(cfg.keys)))
							got, gerr := it.Get(k)
							want, present := snap[string(k)]
							if gerr != nil || (got != nil) != present || (present && string(got) != want) {
								w.bad("conc|scout|get", "version %d could be opened (newest published %d): Get(%q)=(%q,%v), its contents say %q (present=%v)", v, newest, k, got, gerr, want, present)
							}
						}
						w.count("scout_reads_of_the_newest_or_pending_version", 1)
					}
				}
				w.record(100+id, visEvent{"open", v}, call, out, ret)
				w.count("scout_opens", 1)
				time.Sleep(50 * time.Microsecond)
			}
		}(s)
	}
	// writer
	wrng := rand.New(rand.NewSource(seed + 1))
	vc := 0
	pruneTarget := int64(0)
	for round := 0; round < cfg.rounds && len(w.viol) == 0; round++ {
		nw := 1 + wrng.Intn(5)
		if wrng.Intn(5) == 0 || (cfg.async && wrng.Intn(3) == 0) {
			nw = 0 // a commit without writes: its root is the previous version's root (re-keyed when that is pruned)
		}
		for i := 0; i < nw; i++ {
			k := []byte(fmt.Sprintf("k%03d", wrng.Intn(cfg.keys)))
			if wrng.Intn(4) == 0 {
				if _, _, err := t.Remove(k); err != nil {
					w.bad("conc|writer|remove-error", "%v", err)
				}
				M.Remove(string(k))
				R.Remove(k)
			} else {
				vc++
				val := []byte(fmt.Sprintf("v%d", vc))
				if _, err := t.Set(k, val); err != nil {
					w.bad("conc|writer|set-error", "%v", err)
				}
				M.Set(string(k), string(val))
				R.Set(k, val)
			}
		}
		if cfg.async {
			t.SetCommitting()
		}
		wv := M.WorkingVersion()
		w.mu.Lock()
		w.pendingVer, w.pendingSnap = wv, M.Work.Clone()
		w.mu.Unlock()
		call := w.clock.Add(1)
		hash, ver, err := t.SaveVersion()
		ret := w.clock.Add(1)
		if cfg.async {
			t.UnsetCommitting()
		}
		if err != nil {
			w.bad("conc|writer|save-error", "SaveVersion: %v", err)
			break
		}
		wantHash, _, _ := R.Commit()
		M.Commit()
		if ver != wv || !bytes.Equal(hash, wantHash) {
			w.bad("conc|writer|save-result", "SaveVersion returned (%x,%d), reference says (%x,%d)", hash, ver, wantHash, wv)
		}
		w.record(0, visEvent{"commit", ver}, call, "ok", ret)
		w.mu.Lock()
		w.snaps[ver] = M.Vers[ver]
		w.hashes[ver] = hash
		w.published = append(w.published, ver)
		if w.first == 0 {
			w.first = ver
		}
		w.mu.Unlock()
		w.count("commits", 1)
		// prune: versions nobody reads
		if round%4 == 3 {
			w.mu.Lock()
			n := int64(0)
			keep := 3
			for len(w.published) > keep {
				v := w.published[0]
				if w.inUse[v] > 0 {
					break
				}
				n = v
				w.published = w.published[1:]
			}
			w.mu.Unlock()
			if n > 0 {
				call := w.clock.Add(1)
				err := t.DeleteVersionsTo(n)
				ret := w.clock.Add(1)
				if err != nil {
					w.bad("conc|writer|prune-error", "DeleteVersionsTo(%d) on versions nobody reads: %v", n, err)
				} else {
					pruneTarget = n
					if !cfg.async {
						w.record(0, visEvent{"prune", n}, call, "ok", ret)
						w.mu.Lock()
						w.first = n + 1
						w.mu.Unlock()
					}
					w.count("prunes", 1)
				}
			}
		}
	}
	stop.Store(true)
	wg.Wait()
	// bounded progress of background pruning: the first version must reach the target
	if cfg.async && pruneTarget > 0 && len(w.viol) == 0 {
		deadline := time.Now().Add(90 * time.Second)
		reached := false
		for time.Now().Before(deadline) {
			if av := t.AvailableVersions(); len(av) > 0 && int64(av[0]) > pruneTarget {
				reached = true
				break
			}
			time.Sleep(20 * time.Millisecond)
		}
		if !reached {
			c.Res.Inconcl = fmt.Sprintf("background pruning did not reach version %d within 90s after the writer stopped", pruneTarget)
		} else {
			w.count("async_prune_drained", 1)
		}
	}
	// final quiescent check of every published version
	frng := rand.New(rand.NewSource(seed + 3))
	for _, v := range w.published {
		readBattery(w, t, v, w.snaps[v], w.hashes[v], frng, "quiescent", true)
	}
	// visibility history (sync pruning only: with async pruning the deletion has no return event)
	if !cfg.async && len(w.viol) == 0 {
		checkVisibility(c, w)
	}
	for k, n := range w.obs {
		c.Obs(k, n)
	}
	for _, v := range w.viol {
		c.Violate(0, v.Sig, "%s {%s}", v.Detail, cfg)
	}
}

// checkVisibility checks the recorded commit/prune/open history for linearizability against
// the per-version model uncommitted -> committed -> deleted (partitioned by version).
func checkVisibility(c *fw.Ctx, w *c06world) {
	// expand prune(n) into one operation per affected version
	var ops []porcupine.Operation
	maxV := int64(0)
	for _, o := range w.ops {
		if e := o.Input.(visEvent); e.kind == "commit" && e.version > maxV {
			maxV = e.version
		}
	}
	for _, o := range w.ops {
		e := o.Input.(visEvent)
		if e.kind == "prune" {
			for v := int64(1); v <= e.version; v++ {
				oo := o
				oo.Input = visEvent{"prune", v}
				ops = append(ops, oo)
			}
			continue
		}
		ops = append(ops, o)
	}
	m := porcupine.Model{
		Partition: func(h []porcupine.Operation) [][]porcupine.Operation {
			by := map[int64][]porcupine.Operation{}
			for _, o := range h {
				v := o.Input.(visEvent).version
				by[v] = append(by[v], o)
			}
			var out [][]porcupine.Operation
			for _, l := range by {
				out = append(out, l)
			}
			return out
		},
		Init: func() interface{} { return 0 }, // 0 uncommitted, 1 committed, 2 deleted
		Step: func(st, in, out interface{}) (bool, interface{}) {
			s := st.(int)
			e := in.(visEvent)
			switch e.kind {
			case "commit":
				return s == 0, 1
			case "prune":
				if s == 0 {
					return false, s
				}
				return true, 2
			default:
				if out.(string) == "ok" {
					return s == 1, s
				}
				return s != 1, s
			}
		},
		DescribeOperation: func(in, out interface{}) string { return fmt.Sprintf("%v -> %v", in, out) },
	}
	res, _ := porcupine.CheckOperationsVerbose(m, ops, 60*time.Second)
	c.Obs("visibility_ops_checked", len(ops))
	switch res {
	case porcupine.Illegal:
		c.Violate(0, "conc|visibility|not-linearizable", "the commit/prune/open history (%d operations) is not linearizable against the per-version model uncommitted->committed->deleted: a GetImmutable saw a version before its commit returned / after its deletion returned, or missed it in between", len(ops))
	case porcupine.Unknown:
		c.Res.Inconcl = "linearizability checker timed out"
	default:
		c.Obs("visibility_histories_linearizable", 1)
	}
}

// ---- oracle mode: park the writer at a protocol boundary and run every reader operation ----

func runHookMatrix(c *fw.Ctx, point string, cfg c06cfg) {
	store := dbm.NewMemDB()
	t := iavl.NewMutableTree(store, cfg.cache, !cfg.fast, iavl.NewNopLogger())
	if _, err := t.Load(); err != nil {
		c.Violate(0, "exec|open|error", "%v", err)
		return
	}
	defer func() { t.Close() }()
	w := &c06world{snaps: map[int64]model.Snap{}, hashes: map[int64][]byte{}, inUse: map[int64]int{}, obs: map[string]int{}}
	M := model.New(0)
	rng := c.Rng
	parked := make(chan struct{})
	release := make(chan struct{})
	var armed atomic.Bool
	iavl.SetVerifHook(func(name string) {
		if name == point && armed.CompareAndSwap(true, false) {
			parked <- struct{}{}
			<-release
		}
	})
	defer iavl.SetVerifHook(nil)
	commit := func() bool {
		h, v, err := t.SaveVersion()
		if err != nil {
			c.Violate(0, "conc|hook|save-error", "%v", err)
			return false
		}
		M.Commit()
		w.snaps[v] = M.Vers[v]
		w.hashes[v] = h
		w.published = append(w.published, v)
		return true
	}
	vc := 0
	var lastKeys [][]byte // keys changed by the most recent write() call
	write := func(n int) {
		lastKeys = lastKeys[:0]
		for i := 0; i < n; i++ {
			k := []byte(fmt.Sprintf("k%03d", rng.Intn(cfg.keys)))
			if rng.Intn(3) == 0 && len(M.Work) > 0 {
				ks := M.Work.Keys()
				k = []byte(ks[rng.Intn(len(ks))])
				lastKeys = append(lastKeys, k)
				t.Remove(k)
				M.Remove(string(k))
			} else {
				lastKeys = append(lastKeys, k)
				vc++
				t.Set(k, []byte(fmt.Sprintf("v%d", vc)))
				M.Set(string(k), fmt.Sprintf("v%d", vc))
			}
		}
	}
	for i := 0; i < 4; i++ {
		if !(point == "prune:root-fetched" && i%2 == 1) { // (commits without writes: their roots get re-keyed)
			write(4)
		}
		if !commit() {
			return
		}
	}
	for round := 0; round < cfg.rounds; round++ {
		if strings.HasPrefix(point, "save:") && round%2 == 1 {
			// every second commit round runs on a freshly opened handle: cold node and fast-node caches
			t.Close()
			t = iavl.NewMutableTree(store, cfg.cache, !cfg.fast, iavl.NewNopLogger())
			if _, err := t.Load(); err != nil {
				c.Violate(0, "conc|hook|reopen", "%v", err)
				return
			}
			c.Obs("hook_rounds_on_cold_handle", 1)
		}
		// the writer performs one protocol step in its own goroutine and parks at the hook
		done := make(chan struct{})
		armed.Store(true)
		var pruned int64
		go func() {
			defer close(done)
			switch {
			case strings.HasPrefix(point, "prune:"):
				w.mu.Lock()
				if len(w.published) > 3 {
					pruned = w.published[0]
					w.published = w.published[1:]
				}
				w.mu.Unlock()
				if pruned > 0 {
					if err := t.DeleteVersionsTo(pruned); err != nil {
						w.bad("conc|hook|prune-error", "%v", err)
					}
				}
			default:
				write(3)
				h, v, err := t.SaveVersion()
				if err != nil {
					w.bad("conc|hook|save-error", "%v", err)
					return
				}
				M.Commit()
				w.mu.Lock()
				w.snaps[v] = M.Vers[v]
				w.hashes[v] = h
				w.mu.Unlock()
				defer func() {
					w.mu.Lock()
					w.published = append(w.published, v)
					w.mu.Unlock()
				}()
			}
		}()
		select {
		case <-parked:
			// every reader operation on every published version while the writer is parked
			w.mu.Lock()
			pub := append([]int64(nil), w.published...)
			w.mu.Unlock()
			changed := append([][]byte(nil), lastKeys...)
			for _, v := range pub {
				readBattery(w, t, v, w.snaps[v], w.hashes[v], rng, "parked@"+point, true)
				// the keys the parked writer is changing, read in the committed versions
				if it, err := t.GetImmutable(v); err == nil {
					for _, k := range changed {
						got, err := it.Get(k)
						wv, present := w.snaps[v][string(k)]
						if err != nil || (got != nil) != present || (present && string(got) != wv) {
							w.bad("conc|hook|changed-key-while-parked", "writer parked at %s: version %d Get(%q)=(%q,%v), committed contents say %q (present=%v)", point, v, k, got, err, wv, present)
						}
					}
				}
			}
			c.Obs("hook_overlaps_"+point, 1)
			release <- struct{}{}
			<-done
			// quiescent: the version just committed and its predecessors read exactly, in particular
			// the keys that were read while their change was pending
			w.mu.Lock()
			pub = append([]int64(nil), w.published...)
			w.mu.Unlock()
			for i := len(pub) - 1; i >= 0 && i >= len(pub)-2; i-- {
				v := pub[i]
				it, err := t.GetImmutable(v)
				if err != nil {
					continue
				}
				for _, k := range changed {
					got, err := it.Get(k)
					wv, present := w.snaps[v][string(k)]
					if err != nil || (got != nil) != present || (present && string(got) != wv) {
						w.bad("conc|hook|stale-after-overlap", "after readers overlapped the writer parked at %s: version %d Get(%q)=(%q,%v), committed contents say %q (present=%v)", point, v, k, got, err, wv, present)
					}
				}
				readBattery(w, t, v, w.snaps[v], w.hashes[v], rng, "after-hook", true)
			}
		case <-done:
			armed.Store(false)
			c.Obs("hook_not_reached_"+point, 1)
		case <-time.After(90 * time.Second):
			c.Res.Inconcl = "writer neither parked nor finished within 90s"
			return
		}
		if strings.HasPrefix(point, "prune:") {
			if !(point == "prune:root-fetched" && round%2 == 0) {
				write(2)
			}
			if !commit() {
				return
			}
		}
		if len(w.viol) > 0 {
			break
		}
	}
	for k, n := range w.obs {
		c.Obs(k, n)
	}
	for _, v := range w.viol {
		c.Violate(0, v.Sig, "%s {hook point %s; %s}", v.Detail, point, cfg)
	}
}

// runExportPin: a version pinned by an open export cannot be deleted until the export is closed.
func runExportPin(c *fw.Ctx, cfg c06cfg) {
	store := dbm.NewMemDB()
	t := iavl.NewMutableTree(store, cfg.cache, !cfg.fast, iavl.NewNopLogger())
	t.Load()
	defer t.Close()
	rng := c.Rng
	R := ref.NewHistory(0)
	for v := 0; v < 6; v++ {
		for i := 0; i < 5; i++ {
			k, val := []byte(fmt.Sprintf("k%03d", rng.Intn(cfg.keys))), []byte(fmt.Sprintf("v%d.%d", v, i))
			t.Set(k, val)
			R.Set(k, val)
		}
		if _, _, err := t.SaveVersion(); err != nil {
			c.Violate(0, "conc|pin|save-error", "%v", err)
			return
		}
		R.Commit()
	}
	pin := int64(1 + rng.Intn(3))
	if cfg.pinLatest {
		pin = 6
	}
	it, err := t.GetImmutable(pin)
	if err != nil {
		c.Violate(0, "conc|pin|getimmutable", "%v", err)
		return
	}
	exp, err := it.Export()
	if err != nil {
		c.Violate(0, "conc|pin|export", "%v", err)
		return
	}
	if cfg.pinLatest {
		// the exported version was the latest one when the export began; the writer moves on
		for v := 0; v < 2; v++ {
			for i := 0; i < 5; i++ {
				k, val := []byte(fmt.Sprintf("k%03d", rng.Intn(cfg.keys))), []byte(fmt.Sprintf("w%d.%d", v, i))
				t.Set(k, val)
				R.Set(k, val)
			}
			if _, _, err := t.SaveVersion(); err != nil {
				c.Violate(0, "conc|pin|save-error", "%v", err)
				return
			}
			R.Commit()
		}
		c.Obs("export_pins_of_the_then_latest_version", 1)
	}
	// a second export of the same version, closed twice, must not release the pin
	if it2, err := t.GetImmutable(pin); err == nil {
		if e2, err := it2.Export(); err == nil {
			e2.Close()
			e2.Close()
		}
	}
	first, _ := exp.Next() // the export is in progress
	target := pin + int64(rng.Intn(2))
	var wg sync.WaitGroup
	var delErr error
	wg.Add(1)
	go func() { // the writer goroutine tries to delete while the reader's export is open
		defer wg.Done()
		delErr = t.DeleteVersionsTo(target)
	}()
	wg.Wait()
	if delErr == nil {
		c.Violate(0, "conc|pin|deleted-while-exporting", "DeleteVersionsTo(%d) succeeded while an Exporter on version %d is open (opened while it was the latest version: %v) {%s}", target, pin, cfg.pinLatest, cfg)
	}
	// the export is complete and correct
	want := ref.Export(R.Roots[pin])
	got := []*iavl.ExportNode{first}
	for {
		n, err := exp.Next()
		if err != nil {
			break
		}
		got = append(got, n)
	}
	same := len(got) == len(want)
	for i := 0; same && i < len(want); i++ {
		same = got[i] != nil && bytes.Equal(got[i].Key, want[i].Key) && bytes.Equal(got[i].Value, want[i].Value) && got[i].Version == want[i].Version && got[i].Height == want[i].Height
	}
	if !same {
		c.Violate(0, "conc|pin|export-stream", "export of pinned version %d yielded %d nodes, the reference post-order stream has %d {%s}", pin, len(got), len(want), cfg)
	}
	exp.Close()
	if err := t.DeleteVersionsTo(target); err != nil {
		c.Violate(0, "conc|pin|delete-after-close", "DeleteVersionsTo(%d) after the export was closed: %v {%s}", target, err, cfg)
	}
	c.Obs("export_pins_checked", 1)
}

// stageStore parks ONE caller at the next reverse iterator over the node key space (stage 1) or at the
// next Has of a node key (stage 2); the stage is consumed by the caller that parks.
type stageStore struct {
	corestore.KVStoreWithBatch
	stage   atomic.Int32
	parked  chan struct{}
	release chan struct{}
}

func (p *stageStore) park(want int32) {
	if p.stage.CompareAndSwap(want, 0) {
		p.parked <- struct{}{}
		<-p.release
	}
}

func (p *stageStore) ReverseIterator(start, end []byte) (corestore.Iterator, error) {
	if len(start) > 0 && start[0] == 's' {
		p.park(1)
	}
	return p.KVStoreWithBatch.ReverseIterator(start, end)
}

func (p *stageStore) Has(k []byte) (bool, error) {
	has, err := p.KVStoreWithBatch.Has(k)
	if len(k) > 0 && k[0] == 's' {
		p.park(2)
	}
	return has, err
}

// runLatestDiscoveryOverlap: a reader opens a version on a handle that has no latest version cached
// yet (empty store). It is parked when it starts to look for the latest version in the store, the
// writer commits version 1, the reader goes on, finds version 1 and is parked again inside its
// existence probe; the writer commits versions 2 and 3; the reader is released. Afterwards every
// committed version must open and read exactly on that handle (what the reader found in the store
// must not take the range back). If the reader does not reach a park point (the code looks for the
// version differently) nothing is judged and that is counted.
func runLatestDiscoveryOverlap(c *fw.Ctx, cfg c06cfg) {
	st := &stageStore{KVStoreWithBatch: dbm.NewMemDB(), parked: make(chan struct{}), release: make(chan struct{})}
	t := iavl.NewMutableTree(st, cfg.cache, !cfg.fast, iavl.NewNopLogger())
	if _, err := t.Load(); err != nil {
		c.Violate(0, "conc|discovery|load", "%v", err)
		return
	}
	snaps := map[int64]model.Snap{}
	cur := model.Snap{}
	commit := func(v int64) bool {
		for i := 0; i < 3; i++ {
			k, val := fmt.Sprintf("d%d", (int(v)+i)%5), fmt.Sprintf("v%d-%d", v, i)
			t.Set([]byte(k), []byte(val))
			cur[k] = val
		}
		if _, ver, err := t.SaveVersion(); err != nil || ver != v {
			c.Violate(int(v), "conc|discovery|save-error", "SaveVersion = (%d,%v), want %d", ver, err, v)
			return false
		}
		snaps[v] = cur.Clone()
		return true
	}
	waitParked := func() bool {
		select {
		case <-st.parked:
			return true
		case <-time.After(5 * time.Second):
			return false
		}
	}
	done := make(chan error, 1)
	st.stage.Store(1)
	go func() {
		_, err := t.GetImmutable(1)
		done <- err
	}()
	if !waitParked() {
		st.stage.Store(0)
		<-done
		c.Obs("discovery_overlap_not_reached", 1)
		return
	}
	ok := commit(1)
	st.stage.Store(2)
	st.release <- struct{}{}
	second := ok && waitParked()
	if !second {
		st.stage.Store(0)
	}
	if ok {
		ok = commit(2) && commit(3)
	}
	if second {
		st.release <- struct{}{}
	}
	<-done // (whether version 1 opened for this reader is not judged: its commit overlapped the call)
	if !ok {
		return
	}
	if !second {
		c.Obs("discovery_overlap_not_reached", 1)
		return
	}
	c.Obs("discovery_overlaps", 1)
	for v := int64(1); v <= 3; v++ {
		it, err := t.GetImmutable(v)
		if err != nil {
			c.Violate(int(v), "conc|discovery|getimmutable", "after a reader's search for the latest version overlapped the commits of versions 1-3, GetImmutable(%d) of a committed, undeleted version fails: %v (AvailableVersions()=%v) {%s}", v, err, t.AvailableVersions(), cfg)
			return
		}
		var gk []string
		itr, err := it.Iterator(nil, nil, true)
		if err == nil {
			for ; itr.Valid(); itr.Next() {
				gk = append(gk, string(itr.Key())+"="+string(itr.Value()))
			}
			itr.Close()
		}
		var want []string
		for _, k := range snaps[v].Keys() {
			want = append(want, k+"="+snaps[v][k])
		}
		if err != nil || fmt.Sprint(gk) != fmt.Sprint(want) {
			c.Violate(int(v), "conc|discovery|iterator", "after a reader's search for the latest version overlapped the commits of versions 1-3, Iterator of version %d yields %v (err %v), committed contents are %v {%s}", v, gk, err, want, cfg)
			return
		}
	}
}

// pauseStore parks one reader inside a storage Get (after the value was read) until released:
// the storage seam is the only place where a schedule "reader has read the old entry, writer
// commits, reader continues" can be forced without touching iavl.
type pauseStore struct {
	corestore.KVStoreWithBatch
	armed   atomic.Int32 // first byte of the key space to pause on (0 = off)
	parked  chan struct{}
	release chan struct{}
}

func (p *pauseStore) Get(k []byte) ([]byte, error) {
	v, err := p.KVStoreWithBatch.Get(k)
	if a := p.armed.Load(); a != 0 && len(k) > 0 && int32(k[0]) == a && p.armed.CompareAndSwap(a, 0) {
		p.parked <- struct{}{}
		<-p.release
	}
	return v, err
}

// runSeamPause: a reader of the latest version is parked inside its storage read while the
// writer commits a change of the same key; afterwards every version must still read exactly.
func runSeamPause(c *fw.Ctx, cfg c06cfg) {
	ps := &pauseStore{KVStoreWithBatch: dbm.NewMemDB(), parked: make(chan struct{}), release: make(chan struct{})}
	w := &c06world{snaps: map[int64]model.Snap{}, hashes: map[int64][]byte{}, inUse: map[int64]int{}, obs: map[string]int{}}
	M := model.New(0)
	rng := c.Rng
	t0 := iavl.NewMutableTree(ps, cfg.cache, !cfg.fast, iavl.NewNopLogger())
	t0.Load()
	vc := 0
	for v := 0; v < 4; v++ {
		for i := 0; i < cfg.keys; i++ {
			vc++
			k, val := []byte(fmt.Sprintf("k%03d", i)), []byte(fmt.Sprintf("v%d", vc))
			t0.Set(k, val)
			M.Set(string(k), string(val))
		}
		h, ver, err := t0.SaveVersion()
		if err != nil {
			c.Violate(0, "conc|pause|setup", "%v", err)
			return
		}
		M.Commit()
		w.snaps[ver], w.hashes[ver] = M.Vers[ver], h
		w.published = append(w.published, ver)
	}
	t0.Close()
	// fresh handle: cold node cache and cold fast-node cache
	t := iavl.NewMutableTree(ps, cfg.cache, !cfg.fast, iavl.NewNopLogger())
	if _, err := t.Load(); err != nil {
		c.Violate(0, "conc|pause|load", "%v", err)
		return
	}
	defer func() { t.Close() }()
	for round := 0; round < cfg.rounds && len(w.viol) == 0; round++ {
		latest := w.published[len(w.published)-1]
		snap := w.snaps[latest]
		keys := snap.Keys()
		if len(keys) == 0 {
			break
		}
		k := []byte(keys[rng.Intn(len(keys))])
		if round%3 == 2 {
			// "between" schedule, on a freshly opened handle (cold caches): the writer has changed k
			// but not committed yet; a reader of the latest committed version reads k; the writer
			// commits; afterwards every version must read exactly.
			t.Close()
			t = iavl.NewMutableTree(ps, cfg.cache, !cfg.fast, iavl.NewNopLogger())
			if _, err := t.Load(); err != nil {
				w.bad("conc|between|load", "%v", err)
				break
			}
			remove := rng.Intn(2) == 0
			if remove {
				t.Remove(k)
				M.Remove(string(k))
			} else {
				vc++
				t.Set(k, []byte(fmt.Sprintf("b%d", vc)))
				M.Set(string(k), fmt.Sprintf("b%d", vc))
			}
			type bres struct {
				val []byte
				has bool
				err error
			}
			bdone := make(chan bres, 1)
			go func() {
				it, err := t.GetImmutable(latest)
				if err != nil {
					bdone <- bres{err: err}
					return
				}
				v, err := it.Get(k)
				if err != nil {
					bdone <- bres{err: err}
					return
				}
				has, err := it.Has(k)
				bdone <- bres{v, has, err}
			}()
			br := <-bdone
			if br.err != nil || string(br.val) != snap[string(k)] || !br.has {
				w.bad("conc|between|reader-result", "reader of version %d between the writer's uncommitted change of %q and its commit returned (%q,has=%v,%v), committed contents say %q", latest, k, br.val, br.has, br.err, snap[string(k)])
			}
			h, ver, err := t.SaveVersion()
			if err != nil {
				w.bad("conc|between|save-error", "%v", err)
				break
			}
			M.Commit()
			w.mu.Lock()
			w.snaps[ver], w.hashes[ver] = M.Vers[ver], h
			w.published = append(w.published, ver)
			pub := append([]int64(nil), w.published...)
			w.mu.Unlock()
			for i := len(pub) - 1; i >= 0 && i >= len(pub)-3; i-- {
				v := pub[i]
				it, err := t.GetImmutable(v)
				if err != nil {
					w.bad("conc|between|getimmutable", "%v", err)
					continue
				}
				got, err := it.Get(k)
				wv, present := w.snaps[v][string(k)]
				if err != nil || (got != nil) != present || (present && string(got) != wv) {
					w.bad("conc|between|stale-after-overlap", "a reader of version %d read %q on a cold handle between the writer's uncommitted change (remove=%v) and the commit of version %d; afterwards version %d Get(%q)=(%q,%v), committed contents say %q (present=%v)", latest, k, remove, ver, v, k, got, err, wv, present)
				}
				readBattery(w, t, v, w.snaps[v], w.hashes[v], rng, "after-between", true)
			}
			w.count("between_overlaps", 1)
			continue
		}
		space := int32('s')
		if cfg.fast && round%2 == 0 {
			space = 'f'
		}
		ps.armed.Store(space)
		type rres struct {
			val []byte
			err error
		}
		rdone := make(chan rres, 1)
		go func() {
			it, err := t.GetImmutable(latest)
			if err != nil {
				rdone <- rres{nil, err}
				return
			}
			v, err := it.Get(k)
			rdone <- rres{v, err}
		}()
		parked := false
		select {
		case <-ps.parked:
			parked = true
		case r := <-rdone:
			rdone <- r
		case <-time.After(2 * time.Second):
		}
		ps.armed.Store(0)
		// the writer changes the same key and commits while the reader is parked
		wdone := make(chan error, 1)
		remove := rng.Intn(3) == 0
		go func() {
			if remove {
				t.Remove(k)
				M.Remove(string(k))
			} else {
				vc++
				t.Set(k, []byte(fmt.Sprintf("w%d", vc)))
				M.Set(string(k), fmt.Sprintf("w%d", vc))
			}
			h, ver, err := t.SaveVersion()
			if err == nil {
				M.Commit()
				w.mu.Lock()
				w.snaps[ver], w.hashes[ver] = M.Vers[ver], h
				w.published = append(w.published, ver)
				w.mu.Unlock()
			}
			wdone <- err
		}()
		committedWhileParked := false
		if parked {
			select {
			case err := <-wdone:
				committedWhileParked = true
				wdone <- err
			case <-time.After(150 * time.Millisecond):
				// the writer waits for a lock the parked reader holds: release the reader first
			}
			ps.release <- struct{}{}
			w.count("pause_overlaps", 1)
			if committedWhileParked {
				w.count("pause_overlaps_commit_completed_while_parked", 1)
			}
		}
		r := <-rdone
		if err := <-wdone; err != nil {
			w.bad("conc|pause|save-error", "%v", err)
			break
		}
		want := snap[string(k)]
		if r.err != nil || string(r.val) != want {
			w.bad("conc|pause|reader-result", "reader of version %d parked in its storage read of %q returned (%q,%v), committed contents say %q", latest, k, r.val, r.err, want)
		}
		// quiescent: every published version reads exactly (the just committed one first)
		w.mu.Lock()
		pub := append([]int64(nil), w.published...)
		w.mu.Unlock()
		for i := len(pub) - 1; i >= 0 && i >= len(pub)-3; i-- {
			v := pub[i]
			it, err := t.GetImmutable(v)
			if err != nil {
				w.bad("conc|pause|getimmutable", "%v", err)
				continue
			}
			got, err := it.Get(k)
			wv, present := w.snaps[v][string(k)]
			if err != nil || (got != nil) != present || (present && string(got) != wv) {
				w.bad("conc|pause|stale-after-overlap", "after a reader overlapped the commit of version %d (parked in a %q-space read), version %d Get(%q)=(%q,%v), committed contents say %q (present=%v)", pub[len(pub)-1], string(rune(space)), v, k, got, err, wv, present)
			}
			readBattery(w, t, v, w.snaps[v], w.hashes[v], rng, "after-pause", true)
		}
	}
	for k, n := range w.obs {
		c.Obs(k, n)
	}
	for _, v := range w.viol {
		c.Violate(0, v.Sig, "%s {%s}", v.Detail, cfg)
	}
}

var c06Points = []string{"save:after-commit", "save:before-commit", "prune:version-deleted", "prune:after-committing-check", "prune:root-fetched", "clone:children-fetched"}

func c06Config(i int, tier string) (kind string, cfg c06cfg, point string) {
	matrix := []c06cfg{
		{cache: 0, fast: true, backend: "memdb"},
		{cache: 10000, fast: true, backend: "memdb"},
		{cache: 10000, fast: false, backend: "memdb-delay"},
		{cache: 0, fast: false, backend: "goleveldb"},
		{cache: 10000, fast: true, async: true, backend: "memdb"},
		{cache: 100, fast: true, async: true, backend: "memdb-delay"},
		{cache: 10000, fast: true, backend: "goleveldb"},
		{cache: 3, fast: false, async: true, backend: "goleveldb"},
		// tiny caches under background pruning: entries are evicted (and their keys read) all the time
		{cache: 3, fast: true, async: true, backend: "memdb"},
		{cache: 8, fast: false, async: true, backend: "memdb-delay"},
		{cache: 0, fast: true, backend: "prefix-memdb"},
		{cache: 100, fast: false, async: true, backend: "prefix-memdb"},
		{cache: 100, fast: false, backend: "memdb", staleIndex: true},
	}
	reps := 4
	if tier == "thorough" {
		reps = 100
	}
	nStress := len(matrix) * reps
	switch {
	case i < nStress:
		cfg = matrix[i%len(matrix)]
		cfg.readers = []int{2, 8, 16}[(i/len(matrix))%3]
		cfg.rounds = 60
		cfg.keys = []int{6, 24}[(i/len(matrix))%2]
		cfg.prepopulate = (i/len(matrix))%2 == 1 || cfg.backend == "memdb-delay" || cfg.backend == "prefix-memdb" || cfg.staleIndex
		if tier == "thorough" {
			cfg.rounds = 150
		}
		return "stress", cfg, ""
	case i < nStress+len(c06Points)*4:
		j := i - nStress
		cfg = c06cfg{cache: []int{0, 10000}[j%2], fast: (j/2)%2 == 0, backend: "memdb", rounds: 12, keys: 8}
		if tier == "thorough" {
			cfg.rounds = 60
		}
		return "hook", cfg, c06Points[(j/4)%len(c06Points)]
	case i < nStress+len(c06Points)*4+8:
		j := i - nStress - len(c06Points)*4
		return "pin", c06cfg{cache: []int{0, 1000}[j%2], fast: j%4 < 2, backend: "memdb", keys: 12, pinLatest: j >= 4}, ""
	case i < nStress+len(c06Points)*4+16:
		j := i - nStress - len(c06Points)*4 - 8
		cfg = c06cfg{cache: []int{0, 1000}[j%2], fast: j%4 < 3, backend: "memdb", keys: 6, rounds: 10}
		if tier == "thorough" {
			cfg.rounds = 60
		}
		return "pause", cfg, ""
	default:
		return "canary", c06cfg{backend: "none"}, ""
	}
}

// raceCanary commits a deliberate, harmless data race inside the harness (two unsynchronised writes
// of one variable). It exists to show on every run that the whole reporting path works: race build,
// GORACE log_path, log collection in the parent, block parsing. A run in which the canary is not
// reported is inconclusive.
var raceCanaryCell int

func raceCanary() {
	var wg sync.WaitGroup
	for g := 0; g < 2; g++ {
		wg.Add(1)
		go func(g int) {
			defer wg.Done()
			raceCanaryWrite(g)
		}(g)
	}
	wg.Wait()
}

//go:noinline
func raceCanaryWrite(g int) { raceCanaryCell = g }

var raceBlock = regexp.MustCompile(`(?s)WARNING: DATA RACE\n(.*?)\n==================`)

// postRaceLogs parses the race detector logs of all workers.
func postRaceLogs(p *fw.ParentCtx) {
	files, _ := filepath.Glob(filepath.Join(p.WorkDir, "race.*"))
	total := 0
	seen := map[string]bool{}
	for _, f := range files {
		b, err := os.ReadFile(f)
		if err != nil {
			continue
		}
		for _, m := range raceBlock.FindAllSubmatch(b, -1) {
			total++
			rep := string(m[1])
			// attribute: both accesses must have a frame inside iavl (non-test) code
			parts := strings.Split(rep, "\n\n")
			iavlStacks := 0
			var fns []string
			for _, st := range parts[:min(2, len(parts))] {
				for _, l := range strings.Split(st, "\n") {
					l = strings.TrimSpace(l)
					if strings.HasPrefix(l, "github.com/cosmos/iavl") && !strings.Contains(l, "_test") {
						iavlStacks++
						if i := strings.LastIndex(l, "("); i > 0 {
							l = l[:i]
						}
						fns = append(fns, strings.TrimPrefix(l, "github.com/cosmos/iavl"))
						break
					}
				}
			}
			if strings.Contains(rep, "raceCanaryWrite") {
				p.Obs["race_canary_reports"]++
				continue
			}
			if iavlStacks < 2 {
				p.Obs["race_reports_outside_iavl"]++
				continue
			}
			sort.Strings(fns)
			sig := "race|" + strings.Join(fns, "|")
			if seen[sig] {
				p.Obs["race_reports_duplicate"]++
				continue
			}
			seen[sig] = true
			*p.Violations = append(*p.Violations, fw.FoundViolation{Case: 0, Violation: fw.Violation{Sig: sig, Step: -1,
				Detail: "the Go race detector reported a data race with both accesses in iavl (report from the workers' race log; schedule dependent):\nWARNING: DATA RACE\n" + rep}})
		}
	}
	p.Obs["race_report_blocks"] = total
	p.Obs["race_logs_scanned"] = len(files)
	p.Extra["race_detector"] = "built with -race; GORACE=halt_on_error=0 exitcode=0 log_path=<work>/race; reports deduplicated by the pair of first iavl frames"
}

func init() {
	fw.Register(&fw.Check{
		ID:      "C06",
		Level:   "exploration",
		Workers: 8,
		Cases: func(tier string) int {
			reps := 4
			if tier == "thorough" {
				reps = 100
			}
			return 13*reps + len(c06Points)*4 + 8 + 8 + 1
		},
		CaseTimeout: 240e9,
		Rule: "built with the Go race detector. Case kinds: (stress) 13 configurations {node cache 0/3/8/100/10000} x {fast index on/off} x {sync pruning, background pruning with the SetCommitting/UnsetCommitting protocol} x {MemDB, MemDB with unsynchronised yields around storage calls, GoLevelDB, PrefixDB (prefix slice with spare capacity) over a yielding MemDB; the yielding store also lingers after every batch write; one configuration runs with the index disabled over a database written with it enabled} x readers in {2,8,16}, repeated 4x (quick) / 100x (thorough): one writer (Set/Remove/SaveVersion/DeleteVersionsTo of versions nobody reads) and N readers that obtain committed versions with GetImmutable and run Get, GetWithIndex, Has, Iterator, IterateRange, GetProof (verified against the commit hash), Export, Hash, GetByIndex - every result compared with the snapshot published at commit; 2 scout goroutines open arbitrary version numbers (a version that opens while its commit is still in progress must already read exactly its contents) and the commit/prune/open history is checked with porcupine against the per-version model uncommitted->committed->deleted; background pruning must reach its target within a bound after the writer stops (otherwise inconclusive). " +
			"In the stress cases the verif yield points inside pruning and cloning only delay (Gosched + 30us, no synchronisation, hence no happens-before edge) to widen the windows between protocol steps. (hook) oracle mode: the writer is parked at a verif yield point (in SaveVersion when everything is queued and nothing written; in SaveVersion after the batch commit, before SaveVersion returns; between per-version steps of DeleteVersionsTo; between the committing check and the lock in pruning; in Node.clone) and every reader operation type runs on every published version while it is parked - hook points x reader operations is enumerated. (pause) a reader of the latest version is parked INSIDE its storage read (fast-index entry or node, via a pausing storage wrapper on a freshly opened handle with cold caches) while the writer commits a change of the same key; the reader must return its version's value and afterwards every version must read exactly; every third round uses the \"between\" schedule on a freshly opened handle instead: writer changes k (uncommitted), a reader goroutine reads k in the latest committed version, writer commits, every version must read exactly. Every pause case begins with a staged overlap on an EMPTY store: a reader opening a version is parked when it starts to look for the latest version in the store, version 1 is committed, the reader finds it and is parked again inside its existence probe, versions 2 and 3 are committed, the reader is released: every committed version must then open and iterate exactly on that handle. (pin) a version with an open Exporter (plus a second, double-closed export of it; half of the cases open the export while the version is still the latest one and commit two more versions) cannot be deleted from another goroutine, its stream is R's complete post-order stream, and the deletion succeeds after Close. " +
			"(canary) one case commits a deliberate unsynchronised write pair inside the harness; its report must appear in the collected logs, otherwise the run is inconclusive. All race-detector reports of all workers are collected from the race logs, deduplicated by the pair of first iavl frames and reported if both accesses are in iavl. distinct = hash(kind, configuration, repetition); non-trivial = >=20 commits overlapped by >=100 reader operations, or a parked overlap, or a pin check.",
		Assumptions: []string{"only schedules that happened are judged; race reports are schedule dependent", "the harness' registry (which versions are published / in use) is the monitor's own mutex-guarded state", "readers only read versions the writer has not asked to delete (as the property states)"},
		WorkerEnv: func(work string, shard int) []string {
			// (exitcode=0: reports are taken from the logs; a worker that saw a race must still deliver its results)
			return []string{"GORACE=halt_on_error=0 exitcode=0 log_path=" + filepath.Join(work, "race")}
		},
		Run: func(c *fw.Ctx) {
			kind, cfg, point := c06Config(c.Index, c.Tier)
			c.Res.Digest = fw.DigestOf(kind, cfg, point, c.Index)
			c.Res.Sample = map[string]any{"kind": kind, "config": cfg.String(), "hook_point": point}
			c.State(kind + "|" + point + "|" + fmt.Sprintf("cache=%d fast=%v async=%v %s readers=%d pre=%v", cfg.cache, cfg.fast, cfg.async, cfg.backend, cfg.readers, cfg.prepopulate))
			switch kind {
			case "stress":
				runConcurrent(c, cfg)
				c.Res.Nontrivial = c.Res.Obs["commits"] >= 20 && c.Res.Obs["reader_rounds"] >= 100
			case "hook":
				runHookMatrix(c, point, cfg)
				c.Res.Nontrivial = c.Res.Obs["hook_overlaps_"+point] > 0
			case "pin":
				runExportPin(c, cfg)
				c.Res.Nontrivial = true
			case "pause":
				runLatestDiscoveryOverlap(c, cfg)
				runSeamPause(c, cfg)
				c.Res.Nontrivial = c.Res.Obs["pause_overlaps"] > 0
			case "canary":
				raceCanary()
				c.Obs("race_canary_runs", 1)
			}
		},
		Post: postRaceLogs,
		Floor: func(obs map[string]int, evals, nontrivial int) string {
			for _, k := range []string{"reads_Get", "reads_GetWithIndex", "reads_Has", "reads_Iterator", "reads_IterateRange", "reads_GetProof", "reads_Export", "reads_HashAndGetByIndex", "commits", "prunes", "export_pins_checked", "visibility_histories_linearizable", "hook_overlaps_save:after-commit", "hook_overlaps_save:before-commit", "hook_rounds_on_cold_handle", "hook_overlaps_prune:version-deleted", "pause_overlaps", "between_overlaps", "export_pins_of_the_then_latest_version", "stress_yield_points_passed"} {
				if obs[k] < 4 {
					return fmt.Sprintf("observation %s=%d below floor", k, obs[k])
				}
			}
			for _, pt := range c06Points {
				for _, opn := range []string{"Get", "GetWithIndex", "Has", "Iterator", "IterateRange", "GetProof", "Export", "Hash+GetByIndex"} {
					if obs["cell|parked@"+pt+"|"+opn] == 0 {
						return fmt.Sprintf("hook matrix cell (%s x %s) was never overlapped", pt, opn)
					}
				}
			}
			if !raceEnabled {
				return "the checker was not built with -race"
			}
			if obs["race_canary_reports"] == 0 {
				return "the deliberate race of the harness canary was not found in the race logs: the race-report path is not working"
			}
			return ""
		},
	})
}
