package checks

import (
	"fmt"
	"math"
	"sort"

	"verif/internal/fw"
	"verif/internal/model"
	"verif/internal/v1x"
)

type sizedReader interface {
	v1x.Reader
	Height() int8
}

func avlBound(n int) float64 { return 1.4405 * math.Log2(float64(n)+2) }

// checkShape: height bound, rank/key inverse.
func checkShape(e *v1x.Env, t sizedReader, snap model.Snap, where string, sampleAll bool) {
	n := len(snap)
	h := int(t.Height())
	if int(t.Size()) != n {
		e.Bad("shape|"+where+"|size", "Size()=%d, model has %d", t.Size(), n)
		return
	}
	if n > 0 && float64(h) > avlBound(n) {
		e.Bad("shape|"+where+"|height", "Height()=%d exceeds the AVL bound %.2f for n=%d", h, avlBound(n), n)
	}
	e.C.Obs("height_checks", 1)
	keys := snap.Keys()
	step := 1
	if !sampleAll && n > 64 {
		step = n / 64
	}
	for i := 0; i < n; i += step {
		k, v, err := t.GetByIndex(int64(i))
		if err != nil || string(k) != keys[i] || string(v) != snap[keys[i]] {
			e.Bad("shape|"+where+"|getbyindex", "GetByIndex(%d)=(%q,%q,%v), sorted order says (%q,%q)", i, k, v, err, keys[i], snap[keys[i]])
			return
		}
		idx, v2, err := t.GetWithIndex(k)
		if err != nil || idx != int64(i) || string(v2) != snap[keys[i]] {
			e.Bad("shape|"+where+"|inverse", "GetWithIndex(GetByIndex(%d).key)=(%d,%q,%v)", i, idx, v2, err)
			return
		}
		// lookup by key without the rank (this is the path that may be served by the fast index)
		if g, err := t.Get(k); err != nil || g == nil || string(g) != snap[keys[i]] {
			e.Bad("shape|"+where+"|key-lookup-vs-rank", "GetByIndex(%d) finds key %q with value %q, but Get(%q)=(%q,nil=%v,%v)", i, k, v, k, g, g == nil, err)
			return
		}
		if has, err := t.Has(k); err != nil || !has {
			e.Bad("shape|"+where+"|has-vs-rank", "GetByIndex(%d) finds key %q, but Has(%q)=(%v,%v)", i, k, k, has, err)
			return
		}
		// an absent neighbour gets the rank of the next key
		ak := append([]byte(keys[i]), 0)
		if _, present := snap[string(ak)]; !present {
			idx, v3, err := t.GetWithIndex(ak)
			if err != nil || v3 != nil || idx != int64(i+1) {
				e.Bad("shape|"+where+"|absent-rank", "GetWithIndex(%q) (absent) = (%d,%q,%v), want rank %d", ak, idx, v3, err, i+1)
				return
			}
		}
		e.C.Obs("rank_key_pairs", 1)
	}
	for _, i := range []int64{-1, int64(n), int64(n) + 5} {
		k, v, err := t.GetByIndex(i)
		if err != nil || k != nil || v != nil {
			e.Bad("shape|"+where+"|getbyindex-oob", "GetByIndex(%d)=(%q,%q,%v) for n=%d", i, k, v, err, n)
		}
	}
}

// runShapeHistory: the shape and rank/key invariants over a general history (rollbacks to a version
// and re-commits of the same version number, Rollback(), reopenings, pruning, redo) under node
// caches 0/3/1000 and the fast index on or off - "in every committed version and in the working tree".
func runShapeHistory(c *fw.Ctx) {
	w := map[string]int{"set": 40, "rm": 16, "save": 20, "rollback": 5, "reopen": 4, "load": 2, "delto": 4, "lfo": 6, "delfrom": 2, "redo": 2}
	p := &v1x.GenParams{MinOps: 14, MaxOps: 50, W: w, MaxKeys: 12, InvalidPct: 2, Backends: []string{"mem"},
		Caches: []int{0, 3, 1000, 1000}, Initials: []int64{0, 0, 1, 7}, BigValues: true}
	if c.Tier == "thorough" {
		p.MaxOps = 120
	}
	pl := v1x.MakePlan(c.Rng, p)
	v1x.LazyPrefix(pl, c.Index)
	v1x.EmptyKeyVariant(pl, c.Index)
	c.Res.Digest = fw.DigestOf("history", pl.Cfg, pl.Summary(1000))
	if c.Index < 6 {
		c.Res.Sample = pl.Summary(60)
	}
	e, err := v1x.NewEnv(c, pl.Cfg)
	if err != nil {
		c.Violate(0, "exec|open|error", "%v", err)
		return
	}
	defer e.Close()
	saves, special := 0, 0
	for _, op := range pl.Ops {
		out := e.Apply(op, false)
		if e.Dead {
			break
		}
		switch op.Kind {
		case "save":
			if out.Err == nil {
				saves++
			}
		case "lfo", "delfrom", "rollback", "reopen", "load":
			special++
		}
		state := "clean"
		if e.M.Dirty {
			state = "dirty"
		}
		checkShape(e, e.T, e.M.Work, "work-"+state, true)
		// keys of the universe that are NOT in the working state (e.g. removed but not committed):
		// no lookup by key may find them, and their rank is the rank of their successor
		for _, k := range pl.Universe {
			if _, present := e.M.Work[string(k)]; present {
				continue
			}
			has, err1 := e.T.Has(k)
			g, err2 := e.T.Get(k)
			idx, v3, err3 := e.T.GetWithIndex(k)
			rank, _ := e.M.Work.Rank(string(k))
			if err1 != nil || err2 != nil || err3 != nil || has || g != nil || v3 != nil || idx != int64(rank) {
				e.Bad("shape|work-"+state+"|absent-key", "key %q is not in the working state: Has=(%v,%v) Get=(%q,%v) GetWithIndex=(%d,%q,%v), want rank %d and no value", k, has, err1, g, err2, idx, v3, err3, rank)
				break
			}
			c.Obs("absent_key_lookups", 1)
		}
		vs := e.M.Versions()
		for i := len(vs) - 1; i >= 0 && i >= len(vs)-3; i-- {
			it, err := e.T.GetImmutable(vs[i])
			if err != nil {
				e.Bad("shape|version|getimmutable", "GetImmutable(%d): %v", vs[i], err)
				continue
			}
			where := "old"
			if vs[i] == e.M.Latest {
				where = "latest"
			}
			checkShape(e, it, e.M.Vers[vs[i]], where, true)
		}
		c.Obs("history_steps_checked", 1)
		c.State(e.AbstractState())
		if len(c.Res.Violations) > 0 {
			break
		}
	}
	c.Obs("steps", e.Step)
	c.Res.Nontrivial = saves >= 2 && special >= 1
}

func init() {
	fw.Register(&fw.Check{
		ID:    "C11",
		Level: "exploration",
		Cases: func(tier string) int { return tierN(tier, 400, 10000) },
		Rule: "two case kinds. (odd index) a general planned history (14-50 ops quick, up to 120 thorough: Set/Remove/commit, Rollback(), rollback to a version and re-commit of the same version number, redo, reopen, LoadVersion, pruning; node cache 0/3/1000, fast index on/off, every 5th without an initial Load()) with the invariants below checked after every step on the working tree and the three newest versions, plus: every key found by rank must be found by Get and Has (the lookups that may be served by the fast index). (otherwise) one history of insertion/removal phases (ascending, descending, alternating ends, random, saw-tooth; removals that empty whole subtrees; up to 512 keys quick / 4096 thorough) with commits interleaved at random; node cache 0, fast index off for the read-count part. " +
			"At every checkpoint, on the working tree and on sampled retained versions: Height() <= 1.4405*log2(n+2); GetByIndex(i) = i-th pair of the model and GetWithIndex(key_i) = (i, value_i) (all i up to 64 keys, 64 evenly spaced ranks above; thorough: all), absent keys get the rank of their successor, out-of-range ranks give nil; " +
			"with a counting storage wrapper, the number of stored-node reads ('s' key space) of one public call must not exceed 2h+2 (Get, GetWithIndex, GetByIndex, Has) or 10h+10 (GetProof). " +
			"distinct = hash(phase list); non-trivial = n >= 16 reached and >=1 removal phase and >=2 commits.",
		Assumptions: []string{"model M for order and contents", "read counts are taken at the storage seam with node cache size 0 and the fast index disabled"},
		Run: func(c *fw.Ctx) {
			if c.Index%2 == 1 {
				runShapeHistory(c)
				return
			}
			rng := c.Rng
			maxN := 512
			if c.Tier == "thorough" {
				maxN = 4096
			}
			n := 4 + rng.Intn(maxN)
			if rng.Intn(3) == 0 {
				n = 4 + rng.Intn(60)
			}
			cfg := v1x.Config{Cache: 0, Fast: false, Backend: "mem", Flush: []int{0, 0, 800}[rng.Intn(3)]}
			if rng.Intn(4) == 0 {
				cfg.Cache = 1000
			}
			e, err := v1x.NewEnv(c, cfg)
			if err != nil {
				c.Violate(0, "exec|open|error", "%v", err)
				return
			}
			defer e.Close()
			key := func(i int) []byte { return []byte(fmt.Sprintf("k%06d", i)) }
			var phases []string
			commits, removals, maxSize := 0, 0, 0
			vcnt := 0
			apply := func(op v1x.Op) bool {
				e.Apply(op, false)
				if rng.Intn(n/3+2) == 0 {
					e.Apply(v1x.Op{Kind: "save"}, false)
					commits++
				}
				if len(e.M.Work) > maxSize {
					maxSize = len(e.M.Work)
				}
				return !e.Dead
			}
			set := func(i int) bool {
				vcnt++
				return apply(v1x.Op{Kind: "set", K: key(i), V: []byte(fmt.Sprintf("v%d", vcnt))})
			}
			checkpoint := func() {
				if e.Dead {
					return
				}
				checkShape(e, e.T, e.M.Work, "work", c.Tier == "thorough" && len(e.M.Work) <= 1024)
				vs := e.M.Versions()
				for j := 0; j < 2 && len(vs) > 0; j++ {
					v := vs[rng.Intn(len(vs))]
					it, err := e.T.GetImmutable(v)
					if err != nil {
						e.Bad("shape|old|getimmutable-error", "%v", err)
						continue
					}
					checkShape(e, it, e.M.Vers[v], "version", false)
					// read counts (cache 0, no fast index)
					if e.Cfg.Cache == 0 && len(e.M.Vers[v]) > 0 {
						h := int(it.Height())
						keys := e.M.Vers[v].Keys()
						for s := 0; s < 12; s++ {
							k := []byte(keys[rng.Intn(len(keys))])
							if s%3 == 0 {
								k = append(k, 1) // absent
							}
							count := func(name string, bound int, fn func()) {
								e.W.ResetCounts()
								fn()
								cs := e.W.Counts()
								reads := cs["Get:s"] + cs["Has:s"]
								if reads > bound {
									e.Bad("reads|"+name+"|too-many", "%s on a tree of height %d (n=%d) read %d stored nodes, bound is %d", name, h, len(keys), reads, bound)
								}
								c.Obs("read_counts_"+name, 1)
								if 2*reads > bound {
									c.Obs("calls_above_half_bound_"+name, 1)
								}
							}
							count("Get", 2*h+2, func() { _, _ = it.Get(k) })
							count("GetWithIndex", 2*h+2, func() { _, _, _ = it.GetWithIndex(k) })
							count("Has", 2*h+2, func() { _, _ = it.Has(k) })
							count("GetByIndex", 2*h+2, func() { _, _, _ = it.GetByIndex(int64(rng.Intn(len(keys)))) })
							count("GetProof", 10*h+10, func() { _, _ = it.GetProof(k) })
						}
					}
				}
				c.State(fmt.Sprintf("n%d-h%d", bucket(len(e.M.Work)), e.T.Height()))
			}
			nph := 2 + rng.Intn(5)
			for ph := 0; ph < nph && !e.Dead; ph++ {
				kind := rng.Intn(8)
				phases = append(phases, fmt.Sprint(kind))
				switch kind {
				case 0: // ascending
					for i := 0; i < n; i++ {
						if !set(i) {
							break
						}
					}
				case 1: // descending
					for i := n - 1; i >= 0; i-- {
						if !set(i) {
							break
						}
					}
				case 2: // alternating ends
					for i := 0; i < n/2; i++ {
						if !set(i) || !set(n-1-i) {
							break
						}
					}
				case 3: // random
					for i := 0; i < n; i++ {
						if !set(rng.Intn(n)) {
							break
						}
					}
				case 4: // saw-tooth
					for i := 0; i < n; i++ {
						if !set((i * 37) % n) {
							break
						}
					}
				case 5: // remove a contiguous range (empties subtrees)
					lo := rng.Intn(n)
					hi := lo + rng.Intn(n-lo)
					for i := lo; i <= hi; i++ {
						if !apply(v1x.Op{Kind: "rm", K: key(i)}) {
							break
						}
					}
					removals++
				case 6: // remove every other key
					for i := 0; i < n; i += 2 {
						if !apply(v1x.Op{Kind: "rm", K: key(i)}) {
							break
						}
					}
					removals++
				case 7: // remove from both ends inward
					ks := e.M.Work.Keys()
					sort.Strings(ks)
					for i := 0; i < len(ks)/2 && i < n; i++ {
						if !apply(v1x.Op{Kind: "rm", K: []byte(ks[i])}) || !apply(v1x.Op{Kind: "rm", K: []byte(ks[len(ks)-1-i])}) {
							break
						}
					}
					removals++
				}
				if !e.Dead {
					e.Apply(v1x.Op{Kind: "save"}, false)
					commits++
				}
				checkpoint()
				if len(c.Res.Violations) > 0 {
					break
				}
			}
			c.Obs("steps", e.Step)
			c.Res.Digest = fw.DigestOf(cfg, n, phases, c.Index)
			c.Res.Nontrivial = maxSize >= 16 && removals >= 1 && commits >= 2
			if c.Index < 2 {
				c.Res.Sample = map[string]any{"config": cfg.String(), "n": n, "phases": phases}
			}
		},
		Floor: func(obs map[string]int, evals, nontrivial int) string {
			if obs["height_checks"] < 500 || obs["rank_key_pairs"] < 10000 || obs["read_counts_GetProof"] < 1000 || obs["history_steps_checked"] < 500 {
				return fmt.Sprintf("too few observations: %v", obs)
			}
			return ""
		},
	})
}

func bucket(n int) int {
	b := 0
	for n > 0 {
		n >>= 1
		b++
	}
	return b
}
