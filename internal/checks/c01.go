package checks

import (
	"math/rand"

	"verif/internal/fw"
	"verif/internal/v1x"
)

func tierN(tier string, quick, thorough int) int {
	if tier == "thorough" {
		return thorough
	}
	return quick
}

// altConfigs returns a copy of the plan in which every configuration (initial and at each
// reopen) is redrawn from an independent PRNG; the initial version and the ops stay the same.
func altConfigs(pl *v1x.Plan, rng *rand.Rand, p *v1x.GenParams) *v1x.Plan {
	c := *pl
	c.Cfg = v1x.DrawConfig(rng, p)
	c.Cfg.Initial = pl.Cfg.Initial
	c.Ops = make([]v1x.Op, len(pl.Ops))
	for i, o := range pl.Ops {
		c.Ops[i] = o
		if o.Cfg != nil {
			nc := v1x.DrawConfig(rng, p)
			c.Ops[i].Cfg = &nc
		}
	}
	return &c
}

func planNontrivial(pl *v1x.Plan) (saves, prunes, reopens int) {
	for _, o := range pl.Ops {
		switch o.Kind {
		case "save":
			saves++
		case "delto", "lfo", "delfrom":
			prunes++
		case "reopen", "load":
			reopens++
		}
	}
	return
}

func init() {
	params := func(tier string) *v1x.GenParams {
		p := &v1x.GenParams{MinOps: 10, MaxOps: 40, W: v1x.DefaultW(), MaxKeys: 12, AllowNil: true, InvalidPct: 8,
			Backends: []string{"mem", "mem", "memdb", "prefix", "prefixff"}, Initials: []int64{0, 0, 0, 1, 5, 1000000}, BigValues: true}
		if tier == "thorough" {
			p.MaxOps = 120
		}
		return p
	}
	fw.Register(&fw.Check{
		ID:    "C01",
		Level: "exploration",
		Cases: func(tier string) int { return tierN(tier, 640, 40000) },
		Rule: "case = one generated history (10-40 ops quick, 10-120 thorough; hostile key universes of 1-12 keys; ops Set/Remove/SaveVersion/Rollback/reopen/LoadVersion/DeleteVersionsTo/LoadVersionForOverwriting/DeleteVersionsFrom+reload, 8% invalid version arguments, Set(k,nil)) " +
			"executed under 3 independently drawn configurations (cache 0/1/3/1000 x fast index x flush threshold 150..default x sync x initial version x MemStore/MemDB/PrefixDB; GoLevelDB 1 case in 10) against the versioned-map model; after every step the full read battery " +
			"Every 5th case uses its first handle without an initial Load(): a prefix of 3-6 operations writes to the fresh tree, then issues LoadVersion on the store that still has no version (nothing is loaded, the working tree is kept), with or without a Rollback after it, and the planned history follows. (Get, Has, GetWithIndex, GetByIndex over all ranks incl. -1 and n, Size, Iterate, GetVersioned) runs on the working tree and on every retained version. distinct = hash(config, ops); non-trivial = >=2 commits and >=1 of {prune, rollback-to-version, reopen/load}.",
		Assumptions: []string{"the versioned-map model M (internal/model, ~150 lines) is the specification", "keys non-empty, values non-nil (nil is generated and must be rejected)", "DeleteVersionsTo is only issued for versions below the one the working tree is based on"},
		Run: func(c *fw.Ctx) {
			p := params(c.Tier)
			pl := v1x.MakePlan(c.Rng, p)
			v1x.LazyPrefix(pl, c.Index)
			if v1x.EmptyKeyVariant(pl, c.Index) {
				c.Obs("histories_with_the_empty_key", 1)
			}
			if c.Index%10 == 9 {
				pl.Cfg.Backend = "goleveldb"
			}
			saves, prunes, reopens := planNontrivial(pl)
			c.Res.Digest = fw.DigestOf(pl.Cfg, pl.Summary(1000))
			c.Res.Nontrivial = saves >= 2 && (prunes+reopens) >= 1
			if c.Index < 3 {
				c.Res.Sample = pl.Summary(60)
			}
			rng2 := rand.New(rand.NewSource(c.Rng.Int63()))
			plans := []*v1x.Plan{pl, altConfigs(pl, rng2, p), altConfigs(pl, rng2, p)}
			for ci, plan := range plans {
				e, err := v1x.NewEnv(c, plan.Cfg)
				if err != nil {
					c.Violate(0, "exec|open|error", "opening an empty store with {%s}: %v", plan.Cfg, err)
					return
				}
				c.Logf("--- configuration %d: %s", ci, plan.Cfg)
				for _, op := range plan.Ops {
					e.Apply(op, true)
					if e.Dead {
						break
					}
					e.CheckAllVersions(plan.Universe, 6)
					c.State(e.AbstractState())
				}
				c.Obs("histories", 1)
				c.Obs("steps", e.Step)
				c.Obs("cfg_backend_"+plan.Cfg.Backend, 1)
				if e.Dead {
					c.Obs("histories_cut_short", 1)
				}
				e.Close()
				if len(c.Res.Violations) > 0 {
					return
				}
			}
		},
		Floor: func(obs map[string]int, evals, nontrivial int) string {
			if obs["reads"] < 1000 || obs["versions_read"] < 100 {
				return "too few reads compared"
			}
			return ""
		},
	})
}
