package checks

import (
	"bytes"
	"fmt"

	"github.com/cosmos/iavl"
	ics23 "github.com/cosmos/ics23/go"

	"verif/internal/fw"
	"verif/internal/seam"
	"verif/internal/v1x"
)

// obsVector is what is recorded about a version before a deletion and compared afterwards.
type obsVector struct {
	hash   []byte
	keys   []string
	vals   []string
	gets   map[string]string // universe key -> value ("\x00absent" if absent)
	proofs int
}

func observeVersion(e *v1x.Env, t *iavl.MutableTree, v int64, universe [][]byte) (*obsVector, error) {
	it, err := t.GetImmutable(v)
	if err != nil {
		return nil, fmt.Errorf("GetImmutable(%d): %w", v, err)
	}
	o := &obsVector{hash: it.Hash(), gets: map[string]string{}}
	if _, err := it.Iterate(func(k, val []byte) bool {
		o.keys = append(o.keys, string(k))
		o.vals = append(o.vals, string(val))
		return false
	}); err != nil {
		return nil, fmt.Errorf("Iterate(%d): %w", v, err)
	}
	for _, k := range universe {
		val, err := it.Get(k)
		if err != nil {
			return nil, fmt.Errorf("Get(%q)@%d: %w", k, v, err)
		}
		if val == nil {
			o.gets[string(k)] = "\x00absent"
		} else {
			o.gets[string(k)] = string(val)
		}
		// proofs must verify against the version's root
		if it.Size() > 0 && v1x.ProofCheckable(e.M.Vers[v], k) {
			pr, err := it.GetProof(k)
			if err != nil {
				return nil, fmt.Errorf("GetProof(%q)@%d: %w", k, v, err)
			}
			ok := false
			if val != nil {
				ok = ics23.VerifyMembership(ics23.IavlSpec, o.hash, pr, k, val)
			} else {
				ok = ics23.VerifyNonMembership(ics23.IavlSpec, o.hash, pr, k)
			}
			if !ok {
				return nil, fmt.Errorf("proof for %q at version %d does not verify against its root", k, v)
			}
			o.proofs++
		}
	}
	return o, nil
}

func (a *obsVector) diff(b *obsVector) string {
	if !bytes.Equal(a.hash, b.hash) {
		return fmt.Sprintf("root hash %x -> %x", a.hash, b.hash)
	}
	if fmt.Sprint(a.keys) != fmt.Sprint(b.keys) || fmt.Sprint(a.vals) != fmt.Sprint(b.vals) {
		return fmt.Sprintf("contents %q=%q -> %q=%q", a.keys, a.vals, b.keys, b.vals)
	}
	for k, v := range a.gets {
		if b.gets[k] != v {
			return fmt.Sprintf("Get(%q) %q -> %q", k, v, b.gets[k])
		}
	}
	return ""
}

// unavailable checks that version v is gone on every API of t.
func unavailable(e *v1x.Env, t *iavl.MutableTree, v int64, where string, probe []byte) {
	if t.VersionExists(v) {
		e.Bad("prune|"+where+"|still-exists", "VersionExists(%d) is true after deleting versions up to >= %d", v, v)
	}
	if _, err := t.GetImmutable(v); err == nil {
		e.Bad("prune|"+where+"|still-immutable", "GetImmutable(%d) succeeds after the version was deleted", v)
	}
	for _, a := range t.AvailableVersions() {
		if int64(a) == v {
			e.Bad("prune|"+where+"|still-listed", "AvailableVersions() lists deleted version %d", v)
		}
	}
	if probe != nil {
		if val, _ := t.GetVersioned(probe, v); val != nil {
			e.Bad("prune|"+where+"|still-versioned", "GetVersioned(%q,%d)=%q after the version was deleted", probe, v, val)
		}
	}
}

func init() {
	fw.Register(&fw.Check{
		ID:    "C04",
		Level: "exploration",
		Cases: func(tier string) int { return tierN(tier, 1500, 80000) },
		Rule: "case = one history (12-50 ops quick, up to 120 thorough) dense in commits without writes, empty versions, single-leaf roots reused by later trees, rollbacks to a version followed by rewrites, partial/repeated/multi-version DeleteVersionsTo; flush thresholds 150..default (a deletion is split over several physical batches - counted through the storage seam), cache 0..1000, fast index on/off. " +
			"Around every DeleteVersionsTo(n): an observation vector (root hash, ordered contents, Get of every universe key, ICS-23 proof verification for every universe key) is recorded for every later version before the call and compared after it on the live handle AND on a freshly opened handle; versions <= n must be unavailable on VersionExists/GetImmutable/AvailableVersions/GetVersioned (live and reopened); an invalid request (n >= latest, or a version pinned by an open Exporter - opened right before the request, or opened earlier while that version was still the latest one and held over the following commits) must return an error and leave the raw store byte-identical, and must succeed once the Exporter is closed. " +
			"distinct = hash(config, ops); non-trivial = >=1 successful deletion that left >=1 later version and at least one of {no-op commit adjacent to the deleted range, single-leaf or empty root in range, deletion split over >=2 physical writes}.",
		Assumptions: []string{"synchronous pruning", "the ics23 verifier is trusted", "model M decides which versions must remain"},
		Run: func(c *fw.Ctx) {
			p := &v1x.GenParams{MinOps: 12, MaxOps: 50, W: pruneHeavyW(), MaxKeys: 7, InvalidPct: 10,
				Backends: []string{"mem"}, Initials: []int64{0, 0, 0, 1, 7}, BigValues: true, Flushes: []int{0, 150, 150, 300, 800}}
			if c.Tier == "thorough" {
				p.MaxOps = 120
			}
			pl := v1x.MakePlan(c.Rng, p)
			if v1x.BoundaryLengthVariant(pl, c.Index) {
				c.Obs("histories_with_a_key_of_boundary_length", 1)
			}
			c.Res.Digest = fw.DigestOf(pl.Cfg, pl.Summary(1000))
			if c.Index < 2 {
				c.Res.Sample = pl.Summary(60)
			}
			e, err := v1x.NewEnv(c, pl.Cfg)
			if err != nil {
				c.Violate(0, "exec|open|error", "%v", err)
				return
			}
			defer e.Close()
			good, special := 0, 0
			// a long-lived export, opened on a version while it is the latest one and kept open over the
			// following writes and commits (closed before anything else than set / remove / commit / prune)
			var held *iavl.Exporter
			heldVer := int64(0)
			defer func() {
				if held != nil {
					held.Close()
				}
			}()
			for _, op := range pl.Ops {
				if held != nil && op.Kind != "set" && op.Kind != "rm" && op.Kind != "save" && op.Kind != "delto" {
					held.Close()
					held = nil
				}
				if op.Kind != "delto" {
					out := e.Apply(op, false)
					if e.Dead {
						break
					}
					if op.Kind == "save" && out.Err == nil && held == nil && e.M.Base == e.M.Latest && c.Rng.Intn(6) == 0 {
						if it, err := e.T.GetImmutable(e.M.Latest); err == nil {
							if x, err := it.Export(); err == nil {
								held, heldVer = x, e.M.Latest
							}
						}
					}
					c.State(e.AbstractState())
					continue
				}
				// ---- a deletion request ----
				n := op.N
				valid := e.M.Latest > 0 && n < e.M.Latest
				before := map[int64]*obsVector{}
				var obsErr error
				for _, v := range e.M.Versions() {
					if v > n || !valid {
						before[v], obsErr = observeVersion(e, e.T, v, pl.Universe)
						if obsErr != nil {
							e.Bad("prune|pre|unreadable", "retained version unreadable before the deletion: %v", obsErr)
							break
						}
					}
				}
				if obsErr != nil {
					break
				}
				pre, _ := seam.Dump(e.W.Inner)
				if held != nil {
					if valid && n >= heldVer && heldVer >= e.M.First {
						err := e.T.DeleteVersionsTo(n)
						if err == nil {
							e.Bad("prune|pinned-since-latest|accepted", "DeleteVersionsTo(%d) succeeded while an Exporter opened on version %d (the latest version at that time) is still open", n, heldVer)
						}
						post, _ := seam.Dump(e.W.Inner)
						if !pre.Equal(post) {
							e.Bad("prune|pinned-since-latest|store-changed", "rejected DeleteVersionsTo(%d) (version %d pinned by an export opened while it was the latest) changed the raw store", n, heldVer)
						}
						c.Obs("pinned_since_latest_rejections", 1)
					}
					held.Close()
					held = nil
				}
				// optionally pin a version in the range with an open export
				var exp *iavl.Exporter
				pinned := int64(0)
				if valid && n >= e.M.First && c.Rng.Intn(4) == 0 {
					pinned = e.M.First + int64(c.Rng.Intn(int(n-e.M.First+1)))
					if it, err := e.T.GetImmutable(pinned); err == nil {
						exp, _ = it.Export()
						if exp != nil && c.Rng.Intn(2) == 0 {
							// a second export of the same version that is closed twice (defer + explicit
							// Close, documented as safe) must not release the first one's hold
							if it2, err := e.T.GetImmutable(pinned); err == nil {
								if exp2, err := it2.Export(); err == nil {
									exp2.Close()
									exp2.Close()
									c.Obs("double_closed_second_export", 1)
								}
							}
						}
					}
				}
				if exp != nil {
					err := e.T.DeleteVersionsTo(n)
					if err == nil {
						e.Bad("prune|pinned|accepted", "DeleteVersionsTo(%d) succeeded while an Exporter holds version %d", n, pinned)
					}
					post, _ := seam.Dump(e.W.Inner)
					if !pre.Equal(post) {
						e.Bad("prune|pinned|store-changed", "rejected DeleteVersionsTo(%d) (version %d pinned by an export) changed the raw store", n, pinned)
					}
					exp.Close()
					c.Obs("pinned_rejections", 1)
				}
				first := e.M.First
				deleted := []int64{}
				if valid {
					for v := first; v <= n; v++ {
						deleted = append(deleted, v)
					}
				}
				e.W.StartRecording()
				out := e.Apply(op, false)
				writes := e.W.StopRecording()
				if e.Dead {
					break
				}
				if !valid {
					post, _ := seam.Dump(e.W.Inner)
					if !pre.Equal(post) {
						e.Bad("prune|invalid|store-changed", "rejected DeleteVersionsTo(%d) (latest=%d) changed the raw store", n, e.M.Latest)
					}
					c.Obs("invalid_rejections", 1)
				}
				_ = out
				var pk []byte
				if len(pl.Universe) > 0 {
					pk = pl.Universe[0]
				}
				// live handle, then a reopened one
				h2 := e.OpenHandle(e.Cfg)
				if _, err := h2.Load(); err != nil {
					e.Bad("prune|reopen|load-error", "Load() after DeleteVersionsTo(%d): %v", n, err)
					break
				}
				for hi, h := range []*iavl.MutableTree{e.T, h2} {
					where := []string{"live", "reopened"}[hi]
					for _, v := range deleted {
						unavailable(e, h, v, where, pk)
					}
					for _, v := range e.M.Versions() {
						b := before[v]
						if b == nil {
							continue
						}
						a, err := observeVersion(e, h, v, pl.Universe)
						if err != nil {
							e.Bad("prune|"+where+"|later-version-unreadable", "after DeleteVersionsTo(%d), retained version %d: %v", n, v, err)
							continue
						}
						if d := b.diff(a); d != "" {
							e.Bad("prune|"+where+"|later-version-changed", "DeleteVersionsTo(%d) altered retained version %d: %s", n, v, d)
						}
						c.Obs("versions_compared", 1)
						c.Obs("proofs_verified", a.proofs)
					}
				}
				if valid && len(deleted) > 0 {
					good++
					c.Obs("deletions", 1)
					if len(writes) >= 2 {
						special++
						c.Obs("deletions_split", 1)
					}
					c.Obs("physical_writes", len(writes))
					if len(deleted) > 1 {
						c.Obs("multi_version_deletions", 1)
					}
				}
				c.State(e.AbstractState())
				if len(c.Res.Violations) > 0 {
					break
				}
			}
			for _, st := range c.Res.States {
				if len(st) > 3 && (st[1] == 'r' || st[1] == 'e' || st[1] == 'l' || st[2] == 'r' || st[2] == 'l' || st[2] == 'e') {
					special++
					break
				}
			}
			c.Obs("steps", e.Step)
			c.Res.Nontrivial = good >= 1 && special >= 1 && len(e.M.Vers) >= 1
		},
		Floor: func(obs map[string]int, evals, nontrivial int) string {
			if obs["deletions"] < 200 || obs["versions_compared"] < 1000 || obs["deletions_split"] < 20 || obs["pinned_rejections"] < 10 || obs["invalid_rejections"] < 10 {
				return fmt.Sprintf("too few observations: %v", obs)
			}
			return ""
		},
	})
}
