package checks

import (
	"bytes"
	"fmt"
	"math/rand"
	"os"
	"path/filepath"
	"sort"

	"github.com/cosmos/iavl"
	iavl2 "github.com/cosmos/iavl/v2"

	"verif/internal/fw"
	"verif/internal/model"
	"verif/internal/ref"
	"verif/internal/seam"
	"verif/internal/v1x"
)

// v2cfg is one combination of v2 options.
type v2cfg struct {
	Checkpoint int64
	HeightF    int8
	Evict      int8
	Shard      bool
}

func (c v2cfg) String() string {
	return fmt.Sprintf("checkpointInterval=%d heightFilter=%d evictionDepth=%d shardTrees=%v", c.Checkpoint, c.HeightF, c.Evict, c.Shard)
}

func allV2Configs() []v2cfg {
	var out []v2cfg
	for _, cp := range []int64{1, 2, 3, 7, 1000} {
		for _, hf := range []int8{0, 1} {
			for _, ev := range []int8{-1, 0, 1, 8} {
				for _, sh := range []bool{false, true} {
					out = append(out, v2cfg{cp, hf, ev, sh})
				}
			}
		}
	}
	return out
}

type v2handle struct {
	tree *iavl2.Tree
	sql  *iavl2.SqliteDb
	pool *iavl2.NodePool
	path string
	cfg  v2cfg
}

// errLogger prints only errors (to stderr): the v2 writer loops log the reason and then call
// os.Exit(1); the parent attributes the dead worker to the case and shows that reason.
type errLogger struct{}

func (errLogger) Info(string, ...any)  {}
func (errLogger) Warn(string, ...any)  {}
func (errLogger) Debug(string, ...any) {}
func (errLogger) Error(msg string, kv ...any) {
	fmt.Fprintf(os.Stderr, "fatal error: v2 logged an error before exiting: %s %v\n", msg, kv)
}

func openV2(path string, cfg v2cfg) (*v2handle, error) {
	pool := iavl2.NewNodePool()
	sql, err := iavl2.NewSqliteDb(pool, iavl2.SqliteDbOptions{Path: path, ShardTrees: cfg.Shard, Logger: errLogger{}})
	if err != nil {
		return nil, err
	}
	opts := iavl2.DefaultTreeOptions()
	opts.CheckpointInterval = cfg.Checkpoint
	opts.HeightFilter = cfg.HeightF
	opts.EvictionDepth = cfg.Evict
	opts.StateStorage = true
	t := iavl2.NewTree(sql, pool, opts)
	return &v2handle{tree: t, sql: sql, pool: pool, path: path, cfg: cfg}, nil
}

func (h *v2handle) close() { _ = h.tree.Close() }

// v2op is one write of a version's write set.
type v2op struct {
	del bool
	k   []byte
	v   []byte
}

// genWriteSet draws a normal-form write set (at most one op per key), sorted or shuffled.
func genWriteSet(rng *rand.Rand, universe [][]byte, cur model.Snap, vc *int, shrink bool) []v2op {
	n := rng.Intn(len(universe) + 1)
	if rng.Intn(7) == 0 {
		n = 0
	}
	perm := rng.Perm(len(universe))[:n]
	var ops []v2op
	for _, i := range perm {
		k := universe[i]
		_, present := cur[string(k)]
		switch {
		case shrink && present:
			ops = append(ops, v2op{del: true, k: k})
		case present && rng.Intn(3) == 0:
			ops = append(ops, v2op{del: true, k: k})
		case present && rng.Intn(6) == 0:
			ops = append(ops, v2op{k: k, v: []byte(cur[string(k)])}) // identical rewrite
		case !present && rng.Intn(8) == 0:
			ops = append(ops, v2op{del: true, k: k}) // removal of a key that is not there: must change nothing
		case rng.Intn(12) == 0:
			ops = append(ops, v2op{k: k, v: []byte{}}) // empty (non-nil) value
		default:
			*vc++
			ops = append(ops, v2op{k: k, v: []byte(fmt.Sprintf("v%d", *vc))})
		}
	}
	if rng.Intn(2) == 0 {
		sort.Slice(ops, func(a, b int) bool { return bytes.Compare(ops[a].k, ops[b].k) < 0 })
	}
	return ops
}

func opsStr(ops []v2op) string {
	var b bytes.Buffer
	for _, o := range ops {
		if o.del {
			fmt.Fprintf(&b, "rm(%q) ", o.k)
		} else {
			fmt.Fprintf(&b, "set(%q=%q) ", o.k, o.v)
		}
	}
	return b.String()
}

// checkV2Reads compares the v2 tree's reads with the model.
func checkV2Reads(c *fw.Ctx, t *iavl2.Tree, snap model.Snap, universe [][]byte, wantHeight int8, tag, hist string, rng *rand.Rand, maxTriples int) {
	bad := func(sig, f string, a ...any) {
		c.Violate(0, "v2|"+tag+"|"+sig, "%s; history: %s", fmt.Sprintf(f, a...), hist)
	}
	if int(t.Size()) != len(snap) {
		bad("size", "Size()=%d, model has %d keys", t.Size(), len(snap))
	}
	if wantHeight >= 0 && t.Height() != wantHeight {
		bad("height", "Height()=%d, v1/reference tree has height %d", t.Height(), wantHeight)
	}
	for _, k := range v1x.Probes(universe, snap) {
		want, present := snap[string(k)]
		got, err := t.Get(k)
		if err != nil || (got != nil) != present || (present && string(got) != want) {
			bad("get", "Get(%q)=(%q,%v), model says %q (present=%v)", k, got, err, want, present)
		}
		has, err := t.Has(k)
		if err != nil || has != present {
			bad("has", "Has(%q)=(%v,%v), model says %v", k, has, err, present)
		}
		c.Obs("v2_point_reads", 2)
	}
	bounds := boundSet(universe, snap)
	type triple struct {
		s, e []byte
		mode int // 0 asc exclusive, 1 asc inclusive, 2 reverse
	}
	var triples []triple
	for _, s := range bounds {
		for _, e := range bounds {
			for m := 0; m < 3; m++ {
				triples = append(triples, triple{s, e, m})
			}
		}
	}
	if len(triples) > maxTriples {
		rng.Shuffle(len(triples), func(i, j int) { triples[i], triples[j] = triples[j], triples[i] })
		triples = append(triples[:maxTriples], triple{nil, nil, 0}, triple{nil, nil, 1}, triple{nil, nil, 2})
	}
	for _, tr := range triples {
		var itr iavl2.Iterator
		var err error
		var want []kvp
		name := ""
		switch tr.mode {
		case 0:
			itr, err = t.Iterator(tr.s, tr.e, false)
			want = expectRange(snap, tr.s, tr.e, true, false)
			name = "iterator"
		case 1:
			itr, err = t.Iterator(tr.s, tr.e, true)
			want = expectRange(snap, tr.s, tr.e, true, true)
			name = "iterator-inclusive"
		default:
			itr, err = t.ReverseIterator(tr.s, tr.e)
			want = expectRange(snap, tr.s, tr.e, false, false)
			name = "reverse-iterator"
		}
		if err != nil {
			bad(name+"-error", "%v", err)
			continue
		}
		var got []kvp
		for n := 0; itr.Valid(); itr.Next() {
			got = append(got, kvp{append([]byte(nil), itr.Key()...), append([]byte(nil), itr.Value()...)})
			if n++; n > 10000 {
				break
			}
		}
		ierr := itr.Error()
		itr.Close()
		if !samePairs(got, want) || ierr != nil {
			cls := "wrong"
			if len(got) > len(want) {
				cls = "extra"
			} else if len(got) < len(want) {
				cls = "missing"
			}
			bad(name+"|"+cls, "%s [%s,%s) yields %s (err=%v), model says %s", name, bstr(tr.s), bstr(tr.e), fmtPairs(got), ierr, fmtPairs(want))
		}
		c.Obs("v2_iterations_"+name, 1)
	}
}

// v2History drives v2, v1 and the oracles through the same per-version write sets.
type v2History struct {
	c        *fw.Ctx
	cfg      v2cfg
	h        *v2handle
	v1       *iavl.MutableTree
	M        *model.Model
	R        *ref.History
	universe [][]byte
	log      []string
	hashes   map[int64][]byte
	vc       int
}

func (x *v2History) hist() string {
	l := x.log
	if len(l) > 24 {
		l = l[len(l)-24:]
	}
	return fmt.Sprintf("{%s} %v", x.cfg, l)
}

// commit applies one write set everywhere and checks op results and the commit hash.
func (x *v2History) commit(ops []v2op) bool {
	c := x.c
	for _, o := range ops {
		if o.del {
			val, removed, err := x.h.tree.Remove(o.k)
			mv, mok := x.M.Remove(string(o.k))
			x.R.Remove(o.k)
			if x.v1 != nil {
				x.v1.Remove(o.k)
			}
			if err != nil {
				c.Violate(len(x.log), "v2|op|remove-error", "Remove(%q): %v; history: %s", o.k, err, x.hist())
				return false
			}
			// the values returned by Remove / Set are not part of the property: recorded only
			if removed != mok || (mok && string(val) != mv) {
				c.Obs("v2_remove_return_value_differs_from_model(recorded,not_alarmed)", 1)
			}
		} else {
			upd, err := x.h.tree.Set(o.k, o.v)
			mu := x.M.Set(string(o.k), string(o.v))
			x.R.Set(o.k, o.v)
			if x.v1 != nil {
				x.v1.Set(o.k, o.v)
			}
			if err != nil {
				c.Violate(len(x.log), "v2|op|set-error", "Set(%q): %v; history: %s", o.k, err, x.hist())
				return false
			}
			if upd != mu {
				c.Obs("v2_set_return_value_differs_from_model(recorded,not_alarmed)", 1)
			}
		}
	}
	x.log = append(x.log, fmt.Sprintf("v%d:[%s]", x.M.WorkingVersion(), opsStr(ops)))
	hash, ver, err := x.h.tree.SaveVersion()
	rh, rv, _ := x.R.Commit()
	x.M.Commit()
	if err != nil {
		c.Violate(len(x.log), "v2|commit|error", "SaveVersion: %v; history: %s", err, x.hist())
		return false
	}
	if ver != rv || !bytes.Equal(hash, rh) {
		c.Violate(len(x.log), "v2|commit|hash", "v2 SaveVersion returned (%x,%d), the reference says (%x,%d); history: %s", hash, ver, rh, rv, x.hist())
		return false
	}
	if x.v1 != nil {
		h1, v1v, err := x.v1.SaveVersion()
		if err != nil || v1v != ver || !bytes.Equal(h1, hash) {
			c.Violate(len(x.log), "v2|commit|v1-differs", "v1 SaveVersion returned (%x,%d,%v), v2 returned (%x,%d); history: %s", h1, v1v, err, hash, ver, x.hist())
			return false
		}
		c.Obs("v1_v2_hashes_compared", 1)
	}
	if got := x.h.tree.Hash(); !bytes.Equal(got, hash) {
		c.Violate(len(x.log), "v2|commit|hash-method", "Hash()=%x after SaveVersion returned %x; history: %s", got, hash, x.hist())
	}
	if x.h.tree.Version() != ver {
		c.Violate(len(x.log), "v2|commit|version-method", "Version()=%d after SaveVersion returned %d; history: %s", x.h.tree.Version(), ver, x.hist())
	}
	x.hashes[ver] = hash
	c.Obs("v2_commits", 1)
	return true
}

func refHeight(n *ref.Node) int8 {
	if n == nil {
		return 0
	}
	return n.Height
}

func v2Universe(rng *rand.Rand) [][]byte {
	u := v1x.Universe(rng, 10)
	return u
}

func init() {
	fw.Register(&fw.Check{
		ID:          "C19",
		Level:       "exploration",
		Cases:       func(tier string) int { return tierN(tier, 320, 16000) },
		CaseTimeout: 300e9,
		Rule: "case = one normal-form history (4-14 versions; write sets of 0..n operations with at most one Set or Remove per key per version, key-sorted or in arbitrary order, identical rewrites, empty versions, phases that shrink the tree to empty and grow it again; 1-10 hostile keys) executed on a v2 tree over on-disk SQLite in a scratch directory under one of the 80 option combinations CheckpointInterval{1,2,3,7,1000} x HeightFilter{0,1} x EvictionDepth{-1,0,1,8} x ShardTrees{off,on} (case i uses combination i mod 80; StateStorage on), in lock-step with a v1 MutableTree, the reference tree R and the model M. " +
			"After every Set/Remove the op result, after every commit the root hash (v2 = v1 = R), Hash(), Version(), Size, Height (= R's), Get and Has of every probe key, and Iterator(start,end,inclusive in {false,true}) / ReverseIterator(start,end) over the bound set of C08 (sampled to 90 triples per state quick, 400 thorough) are compared; one state in three is also read before its commit. A panic, SQLite error or os.Exit of the writer goroutines ends the worker and is reported for the case. " +
			"distinct = hash(option combination, write sets); non-trivial = >=3 commits incl. >=1 removal, read back with >=1 bounded iterator.",
		Assumptions: []string{"M, R as in C01/C02; v1 as second reference", "histories are in the form v2 requires (one write per key per version)", "each case uses its own scratch directory (never the shared default path)"},
		Run: func(c *fw.Ctx) {
			rng := c.Rng
			cfgs := allV2Configs()
			cfg := cfgs[c.Index%len(cfgs)]
			dir := filepath.Join(c.TmpDir, fmt.Sprintf("v2-%d", c.Index))
			os.RemoveAll(dir)
			os.MkdirAll(dir, 0o755)
			defer os.RemoveAll(dir)
			h, err := openV2(dir, cfg)
			if err != nil {
				c.Res.Inconcl = "cannot open sqlite: " + err.Error()
				return
			}
			defer h.close()
			x := &v2History{c: c, cfg: cfg, h: h, M: model.New(0), R: ref.NewHistory(0), universe: v2Universe(rng), hashes: map[int64][]byte{}}
			x.v1 = iavl.NewMutableTree(seam.NewMemStore(), 100, true, iavl.NewNopLogger())
			maxTr := 90
			if c.Tier == "thorough" {
				maxTr = 400
			}
			nver := 4 + rng.Intn(11)
			removals := 0
			var all [][]v2op
			for v := 0; v < nver; v++ {
				shrink := rng.Intn(8) == 0
				ops := genWriteSet(rng, x.universe, x.M.Work, &x.vc, shrink)
				all = append(all, ops)
				for _, o := range ops {
					if o.del {
						removals++
					}
				}
				if rng.Intn(3) == 0 && len(ops) > 0 {
					// read the working state before the commit: apply, read, then commit with an empty set
					pre := ops[:len(ops)/2]
					for _, o := range pre {
						if o.del {
							x.h.tree.Remove(o.k)
							x.M.Remove(string(o.k))
							x.R.Remove(o.k)
							x.v1.Remove(o.k)
						} else {
							x.h.tree.Set(o.k, o.v)
							x.M.Set(string(o.k), string(o.v))
							x.R.Set(o.k, o.v)
							x.v1.Set(o.k, o.v)
						}
					}
					x.log = append(x.log, "partial:["+opsStr(pre)+"]")
					checkV2Reads(c, h.tree, x.M.Work, x.universe, -1, "uncommitted", x.hist(), rng, maxTr/3)
					ops = ops[len(ops)/2:]
					c.Obs("v2_uncommitted_states_read", 1)
				}
				if len(c.Res.Violations) > 0 || !x.commit(ops) {
					break
				}
				checkV2Reads(c, h.tree, x.M.Work, x.universe, refHeight(x.R.Work), "committed", x.hist(), rng, maxTr)
				c.State(fmt.Sprintf("%d-%d-%v", len(x.M.Work), refHeight(x.R.Work), x.M.Latest%cfg.Checkpoint == 0))
				if len(c.Res.Violations) > 0 {
					break
				}
			}
			c.Res.Digest = fw.DigestOf(cfg, fmt.Sprint(all))
			if c.Index < 2 {
				c.Res.Sample = map[string]any{"options": cfg.String(), "history": x.log}
			}
			c.Obs("v2_option_combination_"+fmt.Sprint(c.Index%len(cfgs)), 1)
			c.Res.Nontrivial = x.M.Latest >= 3 && removals >= 1
		},
		Floor: func(obs map[string]int, evals, nontrivial int) string {
			if obs["v2_commits"] < 1000 || obs["v1_v2_hashes_compared"] < 1000 || obs["v2_iterations_reverse-iterator"] < 5000 || obs["v2_iterations_iterator-inclusive"] < 5000 || obs["v2_uncommitted_states_read"] < 100 {
				return fmt.Sprintf("too few observations")
			}
			for i := 0; i < 80; i++ {
				if obs["v2_option_combination_"+fmt.Sprint(i)] == 0 {
					return fmt.Sprintf("option combination %d was not exercised", i)
				}
			}
			return ""
		},
	})
}
