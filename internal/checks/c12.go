package checks

import (
	"verif/internal/fw"
	"verif/internal/v1x"
)

func pruneHeavyW() map[string]int {
	return map[string]int{"set": 30, "rm": 14, "save": 26, "rollback": 2, "reopen": 5, "load": 0, "delto": 14, "lfo": 4, "delfrom": 2}
}

func init() {
	fw.Register(&fw.Check{
		ID:    "C12",
		Level: "exploration",
		Cases: func(tier string) int { return tierN(tier, 1600, 80000) },
		Rule: "case = one crash-free history with synchronous pruning (12-50 ops quick, up to 120 thorough; 1-10 keys; many commits without writes, set-then-remove, trees shrinking to empty, single and multi-version DeleteVersionsTo, LoadVersionForOverwriting, DeleteVersionsFrom+reload, reopenings with fresh caches and a different fast-index setting, flush thresholds 150..default, cache 0..1000). " +
			"After EVERY step the raw storage is scanned with the independent decoder D: every retained version must be decodable from its root entry with all child links resolving (incl. the (v,1)->(v,0) rule) and contents equal to the model; every stored 's' entry must be reachable from a retained version (otherwise: leak); with the fast index enabled the raw 'f' entries and the label must describe exactly the latest version. " +
			"Every 4th case then exports its latest version, imports it (plain or compressed) into a fresh store and continues there with a second planned history (commits, prunes, rollbacks, reopenings), audited after every step in the same way. " +
			"distinct = hash(config, ops); non-trivial = >=1 successful deletion of versions that left a later version, and >=3 commits.",
		Assumptions: []string{"decoder D (internal/codec) and model M are the trusted base; the audit does not use the reference tree R", "synchronous pruning, no crashes, no storage faults"},
		Run: func(c *fw.Ctx) {
			p := &v1x.GenParams{MinOps: 12, MaxOps: 50, W: pruneHeavyW(), MaxKeys: 10, InvalidPct: 3,
				Backends: []string{"mem"}, Initials: []int64{0, 0, 0, 1, 7}, BigValues: true}
			if c.Tier == "thorough" {
				p.MaxOps = 120
			}
			pl := v1x.MakePlan(c.Rng, p)
			if v1x.BoundaryLengthVariant(pl, c.Index) {
				c.Obs("histories_with_a_key_of_boundary_length", 1)
			}
			if c.Index%6 == 3 {
				pl.Cfg.Backend = "prefix" // (PrefixDB over MemDB, prefix slice with spare capacity)
			}
			c.Res.Digest = fw.DigestOf(pl.Cfg, pl.Summary(1000))
			if c.Index < 2 {
				c.Res.Sample = pl.Summary(60)
			}
			e, err := v1x.NewEnv(c, pl.Cfg)
			if err != nil {
				c.Violate(0, "exec|open|error", "%v", err)
				return
			}
			defer e.Close()
			saves, dels := 0, 0
			for _, op := range pl.Ops {
				first := e.M.First
				out := e.Apply(op, false)
				if e.Dead {
					break
				}
				if op.Kind == "save" && out.Err == nil {
					saves++
				}
				if (op.Kind == "delto" && out.Err == nil && op.N >= first && first > 0) || ((op.Kind == "lfo" || op.Kind == "delfrom") && out.Err == nil && !out.Expect.Noop) {
					dels++
					c.Obs("deletions", 1)
				}
				e.AuditStorage(e.Cfg.Fast)
				c.State(e.AbstractState())
				if len(c.Res.Violations) > 0 {
					break
				}
			}
			// every 4th case goes on with an IMPORTED copy of its latest version: the store written by the
			// importer (nodes of several versions, no older roots) must satisfy the same audit while the
			// history continues with commits, prunes and rollbacks
			if c.Index%4 == 1 && !e.Dead && len(c.Res.Violations) == 0 && e.M.Latest > 0 && e.M.Base == e.M.Latest {
				v := e.M.Latest
				if it, err := e.T.GetImmutable(v); err == nil {
					compress := c.Index%8 == 1
					if stream, err := exportStream(it, compress); err == nil {
						cfg := pl.Cfg
						cfg.Initial = 0
						e2, err := v1x.NewEnv(c, cfg)
						if err == nil {
							defer e2.Close()
							if err := importStream(e2.T, v, stream, compress); err != nil {
								e2.Bad("audit|import|error", "import of version %d (%d nodes): %v", v, len(stream), err)
							} else {
								snap := e.M.Vers[v]
								e2.M.Vers[v] = snap.Clone()
								e2.M.First, e2.M.Latest, e2.M.Base, e2.M.Work = v, v, v, snap.Clone()
								e2.M.Initial = 0
								e2.R.Roots[v], e2.R.Hashes[v] = e.R.Roots[v], e.R.Hashes[v]
								e2.R.Work, e2.R.Base, e2.R.Initial = e.R.Roots[v], v, 0
								e2.AuditStorage(e2.Cfg.Fast)
								p2 := *p
								p2.MinOps, p2.MaxOps, p2.InvalidPct = 8, 25, 0
								pl2 := v1x.MakePlanFrom(c.Rng, &p2, &v1x.Oracle{M: e2.M, R: e2.R}, pl.Universe)
								for _, op := range pl2.Ops {
									if op.Kind == "reopen" && op.Cfg != nil {
										op.Cfg.Initial = 0
									}
									first := e2.M.First
									out := e2.Apply(op, false)
									if e2.Dead {
										break
									}
									if op.Kind == "delto" && out.Err == nil && op.N >= first && first > 0 {
										c.Obs("deletions_on_imported_store", 1)
									}
									e2.AuditStorage(e2.Cfg.Fast)
									if len(c.Res.Violations) > 0 {
										break
									}
								}
								c.Obs("imported_stores_audited", 1)
							}
						}
					}
				}
			}
			c.Obs("steps", e.Step)
			if len(e.M.Vers) > 0 && allEmpty(e) {
				c.Obs("ended_all_empty", 1)
			}
			c.Res.Nontrivial = dels >= 1 && saves >= 3
		},
		Floor: func(obs map[string]int, evals, nontrivial int) string {
			if obs["raw_audits"] < 1000 || obs["deletions"] < 100 || obs["fast_audits"] < 100 || obs["imported_stores_audited"] < 20 || obs["deletions_on_imported_store"] < 20 {
				return "too few audits / deletions observed"
			}
			return ""
		},
	})
}

func allEmpty(e *v1x.Env) bool {
	for _, s := range e.M.Vers {
		if len(s) > 0 {
			return false
		}
	}
	return true
}
