package checks

import (
	"bytes"
	"fmt"
	"math/rand"

	"github.com/cosmos/iavl"

	"verif/internal/fw"
	"verif/internal/v1x"
)

type kvp struct{ k, v []byte }

func walkPairs(t *iavl.ImmutableTree, asc bool) []kvp {
	var out []kvp
	t.IterateRange(nil, nil, asc, func(k, v []byte) bool {
		out = append(out, kvp{append([]byte(nil), k...), append([]byte(nil), v...)})
		return false
	})
	return out
}

func samePairs(a, b []kvp) bool {
	if len(a) != len(b) {
		return false
	}
	for i := range a {
		if !bytes.Equal(a[i].k, b[i].k) || !bytes.Equal(a[i].v, b[i].v) {
			return false
		}
	}
	return true
}

func fmtPairs(p []kvp) string {
	var b bytes.Buffer
	for _, x := range p {
		fmt.Fprintf(&b, "%q=%q ", x.k, x.v)
	}
	return b.String()
}

// checkFastCoherence is the C07 monitor: every answer served through the fast index equals the
// tree-walk answer.
func checkFastCoherence(e *v1x.Env, universe [][]byte) {
	if e.Dead {
		return
	}
	c := e.C
	probes := v1x.Probes(universe, e.M.Work)
	state := "clean"
	if e.M.Dirty {
		state = "dirty"
	}
	if e.M.Base != e.M.Latest {
		state += "-oldbase"
	}
	for _, k := range probes {
		fast, err1 := e.T.Get(k)
		_, walk, err2 := e.T.GetWithIndex(k)
		if err1 != nil || err2 != nil {
			e.Bad("fast|work|error", "Get/GetWithIndex(%q): %v / %v", k, err1, err2)
			continue
		}
		if !bytes.Equal(fast, walk) || (fast == nil) != (walk == nil) {
			e.Bad("fast|work-"+state+"|get", "working tree: Get(%q)=%q but tree walk GetWithIndex=%q", k, fast, walk)
		}
		c.Obs("fast_vs_walk_reads", 1)
	}
	// iteration over the working state incl. uncommitted changes
	for _, asc := range []bool{true, false} {
		it, err := e.T.Iterator(nil, nil, asc)
		if err != nil {
			e.Bad("fast|work|iterator-error", "Iterator: %v", err)
			continue
		}
		var got []kvp
		for ; it.Valid(); it.Next() {
			got = append(got, kvp{append([]byte(nil), it.Key()...), append([]byte(nil), it.Value()...)})
		}
		if err := it.Error(); err != nil {
			e.Bad("fast|work|iterator-error", "Iterator.Error: %v", err)
		}
		it.Close()
		want := walkPairs(e.T.ImmutableTree, asc)
		if !samePairs(got, want) {
			e.Bad("fast|work-"+state+"|iterator", "working tree Iterator(asc=%v) yields %s, tree walk yields %s", asc, fmtPairs(got), fmtPairs(want))
		}
		c.Obs("fast_vs_walk_iterations", 1)
	}
	// bounded iteration over the working state: bounds on uncommitted and committed keys
	for i := 0; i < 8 && len(probes) > 0; i++ {
		start := probes[(e.Step*7+i*3)%len(probes)]
		var end []byte
		if i%2 == 1 {
			end = probes[(e.Step*5+i*11)%len(probes)]
		}
		asc := i%4 < 2
		it, err := e.T.Iterator(start, end, asc)
		if err != nil {
			e.Bad("fast|work|iterator-error", "Iterator: %v", err)
			continue
		}
		var got []kvp
		for ; it.Valid(); it.Next() {
			got = append(got, kvp{append([]byte(nil), it.Key()...), append([]byte(nil), it.Value()...)})
		}
		it.Close()
		var want []kvp
		e.T.ImmutableTree.IterateRange(start, end, asc, func(k, v []byte) bool {
			want = append(want, kvp{append([]byte(nil), k...), append([]byte(nil), v...)})
			return false
		})
		if !samePairs(got, want) {
			e.Bad("fast|work-"+state+"|bounded-iterator", "working tree Iterator(%q,%q,asc=%v) yields %s, tree walk yields %s", start, end, asc, fmtPairs(got), fmtPairs(want))
		}
		c.Obs("fast_vs_walk_bounded_iterations", 1)
	}
	var got []kvp
	if _, err := e.T.Iterate(func(k, v []byte) bool {
		got = append(got, kvp{append([]byte(nil), k...), append([]byte(nil), v...)})
		return false
	}); err != nil {
		e.Bad("fast|work|iterate-error", "Iterate: %v", err)
	}
	if want := walkPairs(e.T.ImmutableTree, true); !samePairs(got, want) {
		e.Bad("fast|work-"+state+"|iterate", "working tree Iterate yields %s, tree walk yields %s", fmtPairs(got), fmtPairs(want))
	}
	// committed versions
	vs := e.M.Versions()
	cnt := 0
	for i := len(vs) - 1; i >= 0 && cnt < 5; i-- {
		v := vs[i]
		cnt++
		it, err := e.T.GetImmutable(v)
		if err != nil {
			e.Bad("fast|old|getimmutable-error", "GetImmutable(%d): %v", v, err)
			continue
		}
		where := "old"
		if v == e.M.Latest {
			where = "latest"
		}
		for _, k := range probes {
			fast, err1 := it.Get(k)
			_, walk, err2 := it.GetWithIndex(k)
			if err1 != nil || err2 != nil {
				e.Bad("fast|"+where+"|error", "version %d Get/GetWithIndex(%q): %v / %v", v, k, err1, err2)
				continue
			}
			if !bytes.Equal(fast, walk) || (fast == nil) != (walk == nil) {
				e.Bad("fast|"+where+"|get", "version %d: Get(%q)=%q but tree walk GetWithIndex=%q", v, k, fast, walk)
			}
			gv, err := e.T.GetVersioned(k, v)
			if err != nil {
				e.Bad("fast|"+where+"|getversioned-error", "GetVersioned(%q,%d): %v", k, v, err)
			} else if !bytes.Equal(gv, walk) || (gv == nil) != (walk == nil) {
				e.Bad("fast|"+where+"|getversioned", "GetVersioned(%q,%d)=%q but GetImmutable(%d).GetWithIndex=%q", k, v, gv, v, walk)
			}
			c.Obs("fast_vs_walk_reads", 2)
		}
		for _, asc := range []bool{true, false} {
			itr, err := it.Iterator(nil, nil, asc)
			if err != nil {
				e.Bad("fast|"+where+"|iterator-error", "Iterator: %v", err)
				continue
			}
			var got []kvp
			for ; itr.Valid(); itr.Next() {
				got = append(got, kvp{append([]byte(nil), itr.Key()...), append([]byte(nil), itr.Value()...)})
			}
			itr.Close()
			if want := walkPairs(it, asc); !samePairs(got, want) {
				e.Bad("fast|"+where+"|iterator", "version %d Iterator(asc=%v) yields %s, tree walk yields %s", v, asc, fmtPairs(got), fmtPairs(want))
			}
			c.Obs("fast_vs_walk_iterations", 1)
		}
	}
}

// labelCoincidence replaces the planned operations by the pattern in which a stale index label can
// come to name the latest version again: a session with the index enabled commits up to L (label L);
// a session with the index DISABLED commits a further versions, rolls back b versions below L
// (LoadVersionForOverwriting or DeleteVersionsFrom+reload) and commits different content up to
// exactly L (or beyond / short of it); the store is reopened with the index enabled and read.
func labelCoincidence(rng *rand.Rand, pl *v1x.Plan) {
	u := pl.Universe
	if len(u) == 0 {
		return
	}
	vc := 0
	var ops []v1x.Op
	writes := func(n int) {
		for i := 0; i < n; i++ {
			k := u[rng.Intn(len(u))]
			if rng.Intn(4) == 0 {
				ops = append(ops, v1x.Op{Kind: "rm", K: k})
			} else {
				vc++
				ops = append(ops, v1x.Op{Kind: "set", K: k, V: []byte(fmt.Sprintf("c%d", vc))})
			}
		}
	}
	commits := func(n int) {
		for i := 0; i < n; i++ {
			writes(1 + rng.Intn(3))
			ops = append(ops, v1x.Op{Kind: "save"})
		}
	}
	cfgOn, cfgOff := pl.Cfg, pl.Cfg
	cfgOn.Fast, cfgOff.Fast = true, false
	cfgOn.NoLoad, cfgOff.NoLoad = false, false
	pl.Cfg.Fast, pl.Cfg.NoLoad = true, false
	first := pl.Cfg.Initial
	if first == 0 {
		first = 1
	}
	l := 2 + rng.Intn(4) // number of versions committed by the enabled session
	commits(l)
	latest := first + int64(l) - 1 // = L
	a := rng.Intn(3)
	b := 1 + rng.Intn(l-1)
	off := cfgOff
	ops = append(ops, v1x.Op{Kind: "reopen", Cfg: &off})
	commits(a)
	target := latest - int64(b)
	if rng.Intn(2) == 0 {
		ops = append(ops, v1x.Op{Kind: "lfo", N: target})
	} else {
		ops = append(ops, v1x.Op{Kind: "delfrom", N: target})
	}
	// back up to exactly L in most cases
	again := b + []int{0, 0, 0, 1, -1}[rng.Intn(5)]
	if again < 0 {
		again = 0
	}
	commits(again)
	on := cfgOn
	ops = append(ops, v1x.Op{Kind: "reopen", Cfg: &on})
	writes(2)
	ops = append(ops, v1x.Op{Kind: "save"})
	pl.Ops = ops
}

func init() {
	fw.Register(&fw.Check{
		ID:    "C07",
		Level: "exploration",
		Cases: func(tier string) int { return tierN(tier, 1000, 60000) },
		Rule: "case = one history (12-50 ops quick, up to 120 thorough) in which EVERY (re)open independently chooses fast index on/off and which version to load (latest or older), interleaved with writes, removals (incl. written-and-removed inside one version), commits, Rollback, LoadVersion on the live handle, LoadVersionForOverwriting, DeleteVersionsFrom+reload, pruning, redo of an existing version. " +
			"After every step in a session with the index enabled: Get vs tree-walk GetWithIndex for every probe key on the working tree (incl. uncommitted changes) and on the latest and older versions; MutableTree.Iterator (both directions) and Iterate vs tree-walk IterateRange; GetVersioned vs GetImmutable(v).GetWithIndex; after every commit/open with the index enabled the raw 'f' entries decoded by D must equal the model's latest pairs and the label must name the latest version. In sessions with the index disabled the same comparisons run (they must trivially agree) and the model read battery guards against both paths being wrong together. " +
			"Every 10th case is the label-coincidence pattern instead (enabled session commits to L; a session with the index disabled commits further, rolls back below L and commits different content up to L again; reopened enabled). Every 5th case uses its first handle without an initial Load(): a prefix of 3-6 operations writes to the fresh tree, then issues LoadVersion on the store that still has no version (nothing is loaded, the working tree is kept), with or without a Rollback after it, and the planned history follows. distinct = hash(config, ops); non-trivial = >=2 commits, >=1 session with the index enabled and >=1 of {reopen with a different setting, load of an older version, rollback-to-version, prune}.",
		Assumptions: []string{"tree-walk reads (GetWithIndex, IterateRange) are the reference for indexed reads; the model M guards against both being wrong together", "decoder D for the raw index audit"},
		Run: func(c *fw.Ctx) {
			w := map[string]int{"set": 36, "rm": 16, "save": 20, "rollback": 4, "reopen": 10, "load": 5, "delto": 4, "lfo": 4, "delfrom": 2, "redo": 2}
			p := &v1x.GenParams{MinOps: 12, MaxOps: 50, W: w, MaxKeys: 8, InvalidPct: 3,
				Backends: []string{"mem"}, Initials: []int64{0, 0, 0, 1, 9}, FastModes: []int{1, 1, 2, 0}, BigValues: true}
			if c.Tier == "thorough" {
				p.MaxOps = 120
			}
			pl := v1x.MakePlan(c.Rng, p)
			v1x.LazyPrefix(pl, c.Index)
			if v1x.EmptyKeyVariant(pl, c.Index) {
				c.Obs("histories_with_the_empty_key", 1)
			}
			if c.Index%10 == 7 {
				labelCoincidence(c.Rng, pl)
			}
			c.Res.Digest = fw.DigestOf(pl.Cfg, pl.Summary(1000))
			if c.Index < 2 {
				c.Res.Sample = pl.Summary(60)
			}
			e, err := v1x.NewEnv(c, pl.Cfg)
			if err != nil {
				c.Violate(0, "exec|open|error", "%v", err)
				return
			}
			defer e.Close()
			saves, special, fastSteps := 0, 0, 0
			for _, op := range pl.Ops {
				out := e.Apply(op, false)
				if e.Dead {
					break
				}
				switch op.Kind {
				case "save":
					if out.Err == nil {
						saves++
					}
				case "reopen", "load", "lfo", "delfrom", "delto":
					special++
				}
				checkFastCoherence(e, pl.Universe)
				if e.Cfg.Fast {
					fastSteps++
					c.Obs("steps_with_index_enabled", 1)
					if op.Kind != "set" && op.Kind != "rm" && op.Kind != "rollback" && op.Kind != "delto" {
						if raw, err := v1x.ScanRaw(e.W.Inner); err == nil {
							e.AuditFast(raw)
						}
					}
				} else {
					c.Obs("steps_with_index_disabled", 1)
				}
				// the model guards against fast and walk being wrong together
				e.CheckReads(e.T, e.M.Work, "work", v1x.Probes(pl.Universe, e.M.Work))
				c.State(e.AbstractState())
				if len(c.Res.Violations) > 0 {
					break
				}
			}
			c.Obs("steps", e.Step)
			c.Res.Nontrivial = saves >= 2 && special >= 1 && fastSteps >= 1
		},
		Floor: func(obs map[string]int, evals, nontrivial int) string {
			if obs["fast_vs_walk_reads"] < 50000 || obs["fast_audits"] < 500 || obs["steps_with_index_enabled"] < 2000 || obs["steps_with_index_disabled"] < 500 {
				return fmt.Sprintf("too few observations: %v", obs)
			}
			return ""
		},
	})
}
