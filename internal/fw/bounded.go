package fw

import (
	"fmt"
	"regexp"
	"runtime"
	"strings"
	"time"
)

// Bounded runs f in its own goroutine and waits for it. It exists for the "never hangs" clauses:
// a hang cannot be decided by a deadline alone (a loaded machine is slow, not hung), so after the
// generous wall-clock bound the verdict is taken from the goroutine dump:
//
//   - done:        f returned.
//   - deadlocked:  f did not return, the goroutine running f is blocked on a channel / lock / wait
//     inside the code under test (a frame matching pkgPrefix on its stack), and NO other
//     goroutine is executing or blocked inside that code - the object it waits on is private to the
//     code under test, nobody is left who could wake it. The evidence is the stack.
//   - otherwise:   inconclusive (still running, or somebody else is still inside the code).
//
// The blocked goroutine is leaked (it can never finish); the caller must not reuse what f captured.
func Bounded(bound time.Duration, pkgPrefix string, f func()) (done bool, deadlocked bool, evidence string) {
	ch := make(chan struct{})
	marker := make(chan string, 1)
	go func() {
		defer close(ch)
		marker <- goroutineHeader()
		f()
	}()
	gid := <-marker
	select {
	case <-ch:
		return true, false, ""
	case <-time.After(bound):
	}
	// two dumps a little apart: the blocked goroutine must be blocked at the same place in both
	d1 := dumpAll()
	time.Sleep(500 * time.Millisecond)
	select {
	case <-ch:
		return true, false, ""
	default:
	}
	d2 := dumpAll()
	g1, others1 := classify(d1, gid, pkgPrefix)
	g2, others2 := classify(d2, gid, pkgPrefix)
	if g1 == "" || g2 == "" {
		return false, false, "the goroutine running the operation was not found in the dump"
	}
	st := goroutineState(g2)
	blocked := false
	for _, b := range []string{"chan receive", "chan send", "select", "sync.Cond.Wait", "sync.Mutex.Lock", "sync.RWMutex", "semacquire", "sync.WaitGroup.Wait"} {
		if strings.Contains(st, b) {
			blocked = true
		}
	}
	if !blocked || !strings.Contains(g2, pkgPrefix) || stripAddrs(g1) != stripAddrs(g2) {
		return false, false, fmt.Sprintf("operation still running after %s (state %q)", bound, st)
	}
	if others1+others2 > 0 {
		return false, false, fmt.Sprintf("operation blocked after %s but %d other goroutine(s) are inside %s", bound, others2, pkgPrefix)
	}
	return false, true, g2
}

var goroutineHdr = regexp.MustCompile(`^goroutine (\d+) \[([^\]]*)\]:`)

func goroutineHeader() string {
	buf := make([]byte, 64)
	n := runtime.Stack(buf, false)
	m := goroutineHdr.FindSubmatch(buf[:n])
	if m == nil {
		return ""
	}
	return string(m[1])
}

func dumpAll() []string {
	buf := make([]byte, 1<<20)
	for {
		n := runtime.Stack(buf, true)
		if n < len(buf) {
			buf = buf[:n]
			break
		}
		buf = make([]byte, 2*len(buf))
	}
	return strings.Split(string(buf), "\n\n")
}

// classify returns the block of goroutine gid and the number of OTHER goroutines with a frame of
// the code under test.
func classify(blocks []string, gid, pkgPrefix string) (own string, others int) {
	for _, b := range blocks {
		m := goroutineHdr.FindStringSubmatch(b)
		if m == nil {
			continue
		}
		if m[1] == gid {
			own = b
			continue
		}
		// frames of the code under test (not the harness' own packages that merely import it)
		for _, l := range strings.Split(b, "\n") {
			if strings.HasPrefix(l, pkgPrefix) {
				others++
				break
			}
		}
	}
	return
}

func goroutineState(block string) string {
	m := goroutineHdr.FindStringSubmatch(block)
	if m == nil {
		return ""
	}
	return m[2]
}

var addrRe = regexp.MustCompile(`0x[0-9a-f]+|\+0x[0-9a-f]+|, \d+ minutes|\d+ minutes`)

func stripAddrs(s string) string { return addrRe.ReplaceAllString(s, "") }
