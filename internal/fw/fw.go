// Package fw is the check framework: deterministic case lists, worker child processes (one
// panic / fatal error / os.Exit in the library must not end the monitors), aggregation,
// known-findings matching, replay files and the evidence writer.
package fw

import (
	"bufio"
	"crypto/sha256"
	"encoding/binary"
	"encoding/hex"
	"encoding/json"
	"fmt"
	"math/rand"
	"os"
	"os/exec"
	"path/filepath"
	"runtime/debug"
	"sort"
	"strconv"
	"strings"
	"sync"
	"time"
)

// Violation is one refuting observation.
type Violation struct {
	Sig    string `json:"sig"`    // stable structured signature: check|operation|cause|symptom
	Detail string `json:"detail"` // human-readable witness
	Step   int    `json:"step"`
}

// CaseResult is what one executed case reports.
type CaseResult struct {
	Index      int            `json:"index"`
	Violations []Violation    `json:"violations,omitempty"`
	Nontrivial bool           `json:"nontrivial"`
	Digest     string         `json:"digest"` // identifies the case content (distinctness)
	Obs        map[string]int `json:"obs,omitempty"`
	States     []string       `json:"states,omitempty"` // abstract states visited (short strings)
	Sample     any            `json:"sample,omitempty"`
	Inconcl    string         `json:"inconclusive,omitempty"`
	Died       string         `json:"died,omitempty"`
}

// Ctx is handed to a case.
type Ctx struct {
	Prop    string
	Seed    int64
	Tier    string
	Index   int
	Rng     *rand.Rand
	Verbose bool
	Res     *CaseResult
	TmpDir  string
}

func (c *Ctx) Logf(format string, a ...any) {
	if c.Verbose {
		fmt.Printf(format+"\n", a...)
	}
}

// Violate records a violation.
func (c *Ctx) Violate(step int, sig, format string, a ...any) {
	d := fmt.Sprintf(format, a...)
	if len(d) > 4000 {
		d = d[:4000] + "…"
	}
	c.Res.Violations = append(c.Res.Violations, Violation{Sig: sig, Detail: d, Step: step})
	if c.Verbose {
		fmt.Printf("  !! step %d %s: %s\n", step, sig, d)
	}
}

func (c *Ctx) Obs(name string, n int) {
	if c.Res.Obs == nil {
		c.Res.Obs = map[string]int{}
	}
	c.Res.Obs[name] += n
}

func (c *Ctx) State(s string) {
	for _, x := range c.Res.States {
		if x == s {
			return
		}
	}
	if len(c.Res.States) < 64 {
		c.Res.States = append(c.Res.States, s)
	}
}

// Check describes one property check.
type Check struct {
	ID          string
	Level       string // exploration | fault_enumeration
	Cases       func(tier string) int
	Run         func(c *Ctx)
	Rule        string
	Assumptions []string
	// Floor returns a non-empty reason if the aggregated observations are too thin to count
	// as evidence (→ inconclusive).
	Floor func(obs map[string]int, evals, nontrivial int) string
	// Post runs once in the parent after all cases (e.g. race-log analysis). It may add
	// violations and observations.
	Post func(p *ParentCtx)
	// Workers overrides the number of worker processes (0 = default).
	Workers int
	// CaseTimeout is the watchdog per case (0 = default 120s).
	CaseTimeout time.Duration
	// WorkerEnv adds environment variables for worker processes.
	WorkerEnv func(workDir string, shard int) []string
}

// ParentCtx is given to Post.
type ParentCtx struct {
	Seed       int64
	Tier       string
	WorkDir    string
	Obs        map[string]int
	Violations *[]FoundViolation
	Extra      map[string]any
}

type FoundViolation struct {
	Case int
	Violation
}

var registry = map[string]*Check{}

func Register(c *Check) { registry[c.ID] = c }

func Lookup(id string) *Check { return registry[id] }

func IDs() []string {
	var ids []string
	for k := range registry {
		ids = append(ids, k)
	}
	sort.Strings(ids)
	return ids
}

// CaseSeed derives the PRNG seed of a case.
func CaseSeed(seed int64, prop, tier string, index int) int64 {
	h := sha256.New()
	fmt.Fprintf(h, "%d|%s|%s|%d", seed, prop, tier, index)
	s := h.Sum(nil)
	return int64(binary.BigEndian.Uint64(s[:8]) >> 1)
}

// DigestOf hashes arbitrary case content.
func DigestOf(parts ...any) string {
	h := sha256.New()
	for _, p := range parts {
		fmt.Fprintf(h, "%v|", p)
	}
	return hex.EncodeToString(h.Sum(nil)[:10])
}

// RunCase executes one case in-process, converting panics into violations.
func RunCase(ch *Check, seed int64, tier string, index int, verbose bool, tmp string) (res *CaseResult) {
	res = &CaseResult{Index: index}
	ctx := &Ctx{Prop: ch.ID, Seed: seed, Tier: tier, Index: index, Verbose: verbose, Res: res, TmpDir: tmp,
		Rng: rand.New(rand.NewSource(CaseSeed(seed, ch.ID, tier, index)))}
	defer func() {
		if r := recover(); r != nil {
			st := string(debug.Stack())
			ctx.Violate(-1, "panic|"+PanicSite(st), "panic: %v\n%s", r, trimStack(st))
		}
	}()
	ch.Run(ctx)
	return res
}

// PanicSite extracts the first iavl frame of a stack trace (function name, no line numbers).
func PanicSite(stack string) string {
	lines := strings.Split(stack, "\n")
	seenPanic := false
	for _, l := range lines {
		if strings.HasPrefix(l, "panic(") {
			seenPanic = true
			continue
		}
		if !seenPanic {
			continue
		}
		if strings.HasPrefix(l, "github.com/cosmos/iavl") {
			if i := strings.LastIndex(l, "("); i > 0 {
				l = l[:i]
			}
			return strings.TrimPrefix(l, "github.com/cosmos/iavl")
		}
	}
	return "unknown"
}

func trimStack(st string) string {
	lines := strings.Split(st, "\n")
	if len(lines) > 40 {
		lines = lines[:40]
	}
	return strings.Join(lines, "\n")
}

// ---------------------------------------------------------------------------------------
// worker side

// WorkerMain runs the cases of one shard and streams results as JSON lines.
func WorkerMain(prop, tier string, seed int64, shard, of, from int, outPath, tmp string) int {
	ch := Lookup(prop)
	if ch == nil {
		fmt.Fprintln(os.Stderr, "unknown check", prop)
		return 3
	}
	f, err := os.OpenFile(outPath, os.O_APPEND|os.O_CREATE|os.O_WRONLY, 0o644)
	if err != nil {
		fmt.Fprintln(os.Stderr, err)
		return 3
	}
	defer f.Close()
	n := ch.Cases(tier)
	for i := shard; i < n; i += of {
		if i < from {
			continue
		}
		fmt.Fprintf(f, "S %d\n", i)
		res := RunCase(ch, seed, tier, i, false, tmp)
		b, err := json.Marshal(res)
		if err != nil {
			res.Sample = nil
			b, _ = json.Marshal(res)
		}
		fmt.Fprintf(f, "R %s\n", b)
	}
	fmt.Fprintf(f, "E\n")
	return 0
}

// ---------------------------------------------------------------------------------------
// parent side

type KnownFinding struct {
	Property string `json:"property"`
	Sig      string `json:"sig"`
	What     string `json:"what"`
	Witness  string `json:"witness,omitempty"`
	// WitnessCase names a (seed, tier, case) that reproduces the finding; it is re-executed on
	// every run of the check so that the finding is re-observed, not just remembered.
	WitnessSeed int64  `json:"witness_seed,omitempty"`
	WitnessTier string `json:"witness_tier,omitempty"`
	WitnessCase *int   `json:"witness_case,omitempty"`
	WhyNotFixed string `json:"why_not_fixed,omitempty"`
}

type KnownFile struct {
	Findings []KnownFinding `json:"findings"`
	Fixed    []string       `json:"fixed"`
}

func LoadKnown(path string) KnownFile {
	var k KnownFile
	b, err := os.ReadFile(path)
	if err != nil {
		return k
	}
	_ = json.Unmarshal(b, &k)
	return k
}

type Options struct {
	Prop     string
	Tier     string
	Seed     int64
	VerifDir string
	Self     string // path of the worker binary
	MaxCases int    // 0 = all
}

func envInt(name string, def int) int {
	if s := os.Getenv(name); s != "" {
		if v, err := strconv.Atoi(s); err == nil {
			return v
		}
	}
	return def
}

// ParentMain runs a whole check and returns the process exit code.
func ParentMain(o Options) int {
	ch := Lookup(o.Prop)
	if ch == nil {
		fmt.Println("unknown check", o.Prop)
		return 3
	}
	t0 := time.Now()
	n := ch.Cases(o.Tier)
	workers := ch.Workers
	if workers == 0 {
		workers = envInt("VERIF_WORKERS", 16)
	}
	if workers > n {
		workers = n
	}
	work, err := os.MkdirTemp("", "verif-"+o.Prop+"-")
	if err != nil {
		fmt.Println("INCONCLUSIVE cannot create work dir:", err)
		return 2
	}
	defer os.RemoveAll(work)

	caseTimeout := ch.CaseTimeout
	if caseTimeout == 0 {
		caseTimeout = 120 * time.Second
	}

	results := make([]*CaseResult, n)
	var mu sync.Mutex
	var wg sync.WaitGroup
	inconclusive := []string{}
	for w := 0; w < workers; w++ {
		wg.Add(1)
		go func(shard int) {
			defer wg.Done()
			from := 0
			out := filepath.Join(work, fmt.Sprintf("shard%d.jsonl", shard))
			tmp := filepath.Join(work, fmt.Sprintf("tmp%d", shard))
			_ = os.MkdirAll(tmp, 0o755)
			for attempt := 0; attempt < 200; attempt++ {
				_ = os.Remove(out)
				errPath := filepath.Join(work, fmt.Sprintf("shard%d.err", shard))
				ef, _ := os.Create(errPath)
				cmd := exec.Command(o.Self, "worker", o.Prop, o.Tier,
					"--seed", strconv.FormatInt(o.Seed, 10), "--shard", strconv.Itoa(shard), "--of", strconv.Itoa(workers),
					"--from", strconv.Itoa(from), "--out", out, "--tmp", tmp)
				cmd.Stdout = ef
				cmd.Stderr = ef
				cmd.Env = append(os.Environ(), "TMPDIR="+tmp)
				if ch.WorkerEnv != nil {
					cmd.Env = append(cmd.Env, ch.WorkerEnv(work, shard)...)
				}
				if err := cmd.Start(); err != nil {
					mu.Lock()
					inconclusive = append(inconclusive, "cannot start worker: "+err.Error())
					mu.Unlock()
					return
				}
				done := make(chan error, 1)
				go func() { done <- cmd.Wait() }()
				// watchdog: progress-based. The worker must finish a case within caseTimeout.
				lastSize := int64(-1)
				lastChange := time.Now()
				var werr error
				timedOut := false
			waitLoop:
				for {
					select {
					case werr = <-done:
						break waitLoop
					case <-time.After(500 * time.Millisecond):
						if st, err := os.Stat(out); err == nil && st.Size() != lastSize {
							lastSize = st.Size()
							lastChange = time.Now()
						}
						if time.Since(lastChange) > caseTimeout {
							timedOut = true
							_ = cmd.Process.Signal(os.Interrupt)
							time.Sleep(200 * time.Millisecond)
							_ = cmd.Process.Kill()
							werr = <-done
							break waitLoop
						}
					}
				}
				ef.Close()
				finished, lastStart := readShard(out, results, &mu)
				if finished && werr == nil {
					return
				}
				// the worker died (or hung) inside case lastStart
				errTail := tailFile(errPath, 60)
				if lastStart < 0 {
					mu.Lock()
					inconclusive = append(inconclusive, fmt.Sprintf("worker %d died before its first case: %v\n%s", shard, werr, errTail))
					mu.Unlock()
					return
				}
				mu.Lock()
				if results[lastStart] == nil {
					r := &CaseResult{Index: lastStart}
					if timedOut {
						r.Inconcl = fmt.Sprintf("watchdog: case did not finish within %s", caseTimeout)
						r.Died = "hang"
					} else {
						r.Died = fmt.Sprintf("%v", werr)
						site := fatalSite(errTail)
						r.Violations = []Violation{{Sig: "process-died|" + site, Detail: fmt.Sprintf("worker process died in this case (%v):\n%s", werr, errTail), Step: -1}}
					}
					results[lastStart] = r
				}
				mu.Unlock()
				from = lastStart + 1
				// advance from to the next index of this shard
				for from%workers != shard%workers {
					from++
				}
				if from >= n {
					return
				}
			}
		}(w)
	}
	wg.Wait()

	// aggregate
	obs := map[string]int{}
	states := map[string]bool{}
	digests := map[string]bool{}
	nontrivDigests := map[string]bool{}
	var samples []any
	var found []FoundViolation
	evals := 0
	missing := 0
	died := 0
	for i, r := range results {
		if r == nil {
			missing++
			continue
		}
		evals++
		if r.Died != "" {
			died++
		}
		if r.Inconcl != "" {
			inconclusive = append(inconclusive, fmt.Sprintf("case %d: %s", i, r.Inconcl))
		}
		for k, v := range r.Obs {
			obs[k] += v
		}
		for _, s := range r.States {
			states[s] = true
		}
		if r.Digest != "" {
			digests[r.Digest] = true
			if r.Nontrivial {
				nontrivDigests[r.Digest] = true
			}
		}
		if r.Sample != nil && len(samples) < 3 {
			samples = append(samples, r.Sample)
		}
		for _, v := range r.Violations {
			found = append(found, FoundViolation{Case: i, Violation: v})
		}
	}
	if missing > 0 {
		inconclusive = append(inconclusive, fmt.Sprintf("%d cases produced no result", missing))
	}
	extra := map[string]any{}
	if ch.Post != nil {
		ch.Post(&ParentCtx{Seed: o.Seed, Tier: o.Tier, WorkDir: work, Obs: obs, Violations: &found, Extra: extra})
	}

	known := LoadKnown(filepath.Join(o.VerifDir, "known_findings.json"))
	// re-observe the witnesses of the listed findings of this property
	for _, k := range known.Findings {
		if k.Property != o.Prop || k.WitnessCase == nil {
			continue
		}
		tmp := filepath.Join(work, "witness")
		_ = os.MkdirAll(tmp, 0o755)
		old := os.Getenv("TMPDIR")
		os.Setenv("TMPDIR", tmp)
		r := RunCase(ch, k.WitnessSeed, k.WitnessTier, *k.WitnessCase, false, tmp)
		os.Setenv("TMPDIR", old)
		obs["known_finding_witnesses_replayed"]++
		for _, v := range r.Violations {
			found = append(found, FoundViolation{Case: *k.WitnessCase, Violation: v})
		}
	}
	knownHit := map[int]int{}
	var real []FoundViolation
	for _, v := range found {
		matched := false
		for ki, k := range known.Findings {
			if k.Property == o.Prop && k.Sig == v.Sig {
				knownHit[ki]++
				matched = true
				break
			}
		}
		if !matched {
			real = append(real, v)
		}
	}
	for ki, k := range known.Findings {
		if k.Property != o.Prop {
			continue
		}
		if knownHit[ki] > 0 {
			fmt.Printf("KNOWN-FINDING: property=%s %s [sig %s; seen %d times in this run]\n", o.Prop, k.What, k.Sig, knownHit[ki])
		}
	}

	exit := 0
	// violations: one replay file per distinct signature (first case), all counted
	bySig := map[string][]FoundViolation{}
	var sigOrder []string
	for _, v := range real {
		if _, ok := bySig[v.Sig]; !ok {
			sigOrder = append(sigOrder, v.Sig)
		}
		bySig[v.Sig] = append(bySig[v.Sig], v)
	}
	replayDir := filepath.Join(o.VerifDir, "replay")
	if len(real) > 0 {
		_ = os.MkdirAll(replayDir, 0o755)
		exit = 1
	}
	for _, sig := range sigOrder {
		vs := bySig[sig]
		v := vs[0]
		name := fmt.Sprintf("%s-%s-s%d-c%d-%s.json", o.Prop, o.Tier, o.Seed, v.Case, DigestOf(sig)[:8])
		path := filepath.Join(replayDir, name)
		rp := map[string]any{"property": o.Prop, "tier": o.Tier, "seed": o.Seed, "case": v.Case, "sig": sig,
			"step": v.Step, "detail": v.Detail, "occurrences": len(vs),
			"replay_cmd": fmt.Sprintf("./run.sh %s --replay %s", o.Prop, path)}
		b, _ := json.MarshalIndent(rp, "", "  ")
		_ = os.WriteFile(path, b, 0o644)
		fmt.Printf("VIOLATION property=%s replay=%s\n", o.Prop, path)
		fmt.Printf("  sig=%s occurrences=%d first-case=%d step=%d\n  %s\n", sig, len(vs), v.Case, v.Step, firstLines(v.Detail, 12))
	}

	floorMsg := ""
	if ch.Floor != nil {
		floorMsg = ch.Floor(obs, evals, len(nontrivDigests))
	}
	if floorMsg != "" {
		inconclusive = append(inconclusive, "observation floor not met: "+floorMsg)
	}
	if len(nontrivDigests) < 2 {
		inconclusive = append(inconclusive, fmt.Sprintf("only %d distinct non-trivial cases", len(nontrivDigests)))
	}

	// evidence
	if len(samples) == 0 {
		samples = append(samples, "no sample recorded")
	}
	cov := map[string]any{
		"evaluations":         evals,
		"distinct_nontrivial": len(nontrivDigests),
		"distinct_cases":      len(digests),
		"rule":                ch.Rule,
		"samples":             samples,
		"observations":        obs,
		"abstract_states":     len(states),
		"workers_died":        died,
		"known_findings_hit":  len(knownHit),
		"inconclusive":        inconclusive,
		"exhaustive":          false,
	}
	for k, v := range extra {
		cov[k] = v
	}
	tierName := o.Tier
	if tierName != "quick" && tierName != "thorough" {
		tierName = "quick"
	}
	ev := map[string]any{
		"property_id": o.Prop,
		"tier":        tierName,
		"seed":        o.Seed,
		"level":       ch.Level,
		"coverage":    cov,
		"assumptions": ch.Assumptions,
		"wall_s":      time.Since(t0).Seconds(),
		"violations":  len(real),
	}
	_ = os.MkdirAll(filepath.Join(o.VerifDir, "evidence"), 0o755)
	b, _ := json.MarshalIndent(ev, "", " ")
	evPath := filepath.Join(o.VerifDir, "evidence", o.Prop+".json")
	if os.Getenv("VERIF_NO_EVIDENCE") == "" {
		_ = os.WriteFile(evPath, b, 0o644)
	}

	keys := make([]string, 0, len(obs))
	for k := range obs {
		keys = append(keys, k)
	}
	sort.Strings(keys)
	fmt.Printf("%s %s seed=%d: %d cases, %d distinct non-trivial, %d abstract states, %d violations (%d known), %.1fs\n",
		o.Prop, o.Tier, o.Seed, evals, len(nontrivDigests), len(states), len(real), len(found)-len(real), time.Since(t0).Seconds())
	var sb strings.Builder
	for _, k := range keys {
		fmt.Fprintf(&sb, " %s=%d", k, obs[k])
	}
	fmt.Printf("  observed:%s\n", sb.String())
	if exit == 0 && len(inconclusive) > 0 {
		for _, m := range inconclusive {
			fmt.Printf("INCONCLUSIVE property=%s %s\n", o.Prop, firstLines(m, 20))
		}
		exit = 2
	}
	return exit
}

func firstLines(s string, n int) string {
	l := strings.Split(s, "\n")
	if len(l) > n {
		l = append(l[:n], "…")
	}
	return strings.Join(l, "\n  ")
}

func tailFile(path string, n int) string {
	b, err := os.ReadFile(path)
	if err != nil {
		return ""
	}
	// keep head part of a fatal error (the reason and the first goroutine) rather than the tail
	s := string(b)
	if i := strings.Index(s, "fatal error:"); i >= 0 {
		s = s[i:]
	} else if i := strings.Index(s, "panic:"); i >= 0 {
		s = s[i:]
	} else if i := strings.Index(s, "WARNING: DATA RACE"); i >= 0 {
		s = s[i:]
	}
	l := strings.Split(s, "\n")
	if len(l) > n {
		l = l[:n]
	}
	return strings.Join(l, "\n")
}

// fatalSite summarises why a worker died: the fatal error text plus first iavl frame.
func fatalSite(errTail string) string {
	reason := "unknown"
	for _, l := range strings.Split(errTail, "\n") {
		if strings.HasPrefix(l, "fatal error:") || strings.HasPrefix(l, "panic:") {
			reason = strings.TrimSpace(l)
			break
		}
	}
	site := ""
	for _, l := range strings.Split(errTail, "\n") {
		if strings.HasPrefix(l, "github.com/cosmos/iavl") {
			if i := strings.LastIndex(l, "("); i > 0 {
				l = l[:i]
			}
			site = strings.TrimPrefix(l, "github.com/cosmos/iavl")
			break
		}
	}
	if len(reason) > 80 {
		reason = reason[:80]
	}
	return reason + "@" + site
}

// readShard parses a shard output file; returns whether the end marker was seen and the last
// started case without result (-1 if none).
func readShard(path string, results []*CaseResult, mu *sync.Mutex) (bool, int) {
	f, err := os.Open(path)
	if err != nil {
		return false, -1
	}
	defer f.Close()
	sc := bufio.NewScanner(f)
	sc.Buffer(make([]byte, 1<<20), 1<<28)
	finished := false
	pending := -1
	for sc.Scan() {
		line := sc.Text()
		switch {
		case strings.HasPrefix(line, "S "):
			pending, _ = strconv.Atoi(line[2:])
		case strings.HasPrefix(line, "R "):
			var r CaseResult
			if err := json.Unmarshal([]byte(line[2:]), &r); err == nil {
				mu.Lock()
				if r.Index >= 0 && r.Index < len(results) {
					results[r.Index] = &r
				}
				mu.Unlock()
				if r.Index == pending {
					pending = -1
				}
			}
		case line == "E":
			finished = true
		}
	}
	return finished, pending
}

// ReplayMain re-executes the case named in a replay file, verbosely.
func ReplayMain(path string) int {
	b, err := os.ReadFile(path)
	if err != nil {
		fmt.Println(err)
		return 3
	}
	var rp struct {
		Property string `json:"property"`
		Tier     string `json:"tier"`
		Seed     int64  `json:"seed"`
		Case     int    `json:"case"`
		Sig      string `json:"sig"`
	}
	if err := json.Unmarshal(b, &rp); err != nil {
		fmt.Println(err)
		return 3
	}
	ch := Lookup(rp.Property)
	if ch == nil {
		fmt.Println("unknown check", rp.Property)
		return 3
	}
	tmp, _ := os.MkdirTemp("", "verif-replay-")
	defer os.RemoveAll(tmp)
	fmt.Printf("replaying %s tier=%s seed=%d case=%d (expecting %s)\n", rp.Property, rp.Tier, rp.Seed, rp.Case, rp.Sig)
	res := RunCase(ch, rp.Seed, rp.Tier, rp.Case, true, tmp)
	if len(res.Violations) == 0 {
		fmt.Println("no violation on replay")
		return 0
	}
	for _, v := range res.Violations {
		fmt.Printf("VIOLATION property=%s replay=%s\n  sig=%s step=%d\n  %s\n", rp.Property, path, v.Sig, v.Step, firstLines(v.Detail, 30))
	}
	return 1
}
