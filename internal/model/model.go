// Package model is M: the versioned sorted-map model (one map per committed version plus a
// working map and bookkeeping). It imports nothing from iavl.
package model

import "sort"

// Snap is the immutable contents of one committed version.
type Snap map[string]string

func (s Snap) Keys() []string {
	ks := make([]string, 0, len(s))
	for k := range s {
		ks = append(ks, k)
	}
	sort.Strings(ks)
	return ks
}

func (s Snap) Clone() Snap {
	c := make(Snap, len(s))
	for k, v := range s {
		c[k] = v
	}
	return c
}

func (s Snap) Equal(o Snap) bool {
	if len(s) != len(o) {
		return false
	}
	for k, v := range s {
		if ov, ok := o[k]; !ok || ov != v {
			return false
		}
	}
	return true
}

// Rank returns the number of keys < k, and whether k is present.
func (s Snap) Rank(k string) (int, bool) {
	ks := s.Keys()
	i := sort.SearchStrings(ks, k)
	return i, i < len(ks) && ks[i] == k
}

// Model of a versioned tree.
type Model struct {
	Vers    map[int64]Snap
	First   int64 // 0 when no version exists
	Latest  int64
	Initial int64 // configured initial version for the very first commit (0 = unset)
	Base    int64 // version the working map derives from
	Work    Snap
	LastOp  map[string]byte // per key: last operation in the working version ('S' or 'R')
	Dirty   bool            // any successful Set or Remove since the last commit/rollback/load
	// Written[v] = keys whose last operation in version v was a Set (they are present in v)
	Written map[int64]map[string]bool
}

func New(initial int64) *Model {
	return &Model{Vers: map[int64]Snap{}, Work: Snap{}, LastOp: map[string]byte{}, Initial: initial, Written: map[int64]map[string]bool{}}
}

func (m *Model) WorkingVersion() int64 {
	v := m.Base + 1
	if v == 1 && m.Initial > 0 {
		v = m.Initial
	}
	return v
}

// Set returns whether the key existed.
func (m *Model) Set(k, v string) bool {
	_, ok := m.Work[k]
	m.Work[k] = v
	m.LastOp[k] = 'S'
	m.Dirty = true
	return ok
}

// Remove returns the previous value and whether the key existed.
func (m *Model) Remove(k string) (string, bool) {
	v, ok := m.Work[k]
	if ok {
		delete(m.Work, k)
		m.LastOp[k] = 'R'
		m.Dirty = true
	}
	return v, ok
}

// Exists reports whether version v is retained.
func (m *Model) Exists(v int64) bool {
	_, ok := m.Vers[v]
	return ok
}

// Commit commits the working map as a NEW version (the caller checked it does not exist).
func (m *Model) Commit() int64 {
	v := m.WorkingVersion()
	m.Vers[v] = m.Work.Clone()
	wr := map[string]bool{}
	for k, op := range m.LastOp {
		if op == 'S' {
			wr[k] = true
		}
	}
	m.Written[v] = wr
	if m.First == 0 {
		m.First = v
	}
	m.Latest = v
	m.Base = v
	m.Initial = 0
	m.LastOp = map[string]byte{}
	m.Dirty = false
	return v
}

// AdoptExisting models an idempotent re-commit of existing version WorkingVersion().
func (m *Model) AdoptExisting() int64 {
	v := m.WorkingVersion()
	m.Base = v
	m.Work = m.Vers[v].Clone()
	m.LastOp = map[string]byte{}
	m.Dirty = false
	return v
}

func (m *Model) Rollback() {
	if m.Base == 0 {
		m.Work = Snap{}
	} else {
		m.Work = m.Vers[m.Base].Clone()
	}
	m.LastOp = map[string]byte{}
	m.Dirty = false
}

// Load models LoadVersion(v) of an existing version (v=0: latest, or nothing if empty).
func (m *Model) Load(v int64) {
	if v == 0 {
		v = m.Latest
	}
	m.Base = v
	if v == 0 {
		m.Work = Snap{}
	} else {
		m.Work = m.Vers[v].Clone()
	}
	m.LastOp = map[string]byte{}
	m.Dirty = false
}

// DeleteTo removes versions First..n.
func (m *Model) DeleteTo(n int64) {
	for v := m.First; v <= n; v++ {
		delete(m.Vers, v)
	}
	if n >= m.First {
		m.First = n + 1
		// the retained versions may have holes (legacy databases): first = lowest retained
		for m.First < m.Latest && !m.Exists(m.First) {
			m.First++
		}
	}
}

// Clone returns a deep copy (snapshots are immutable and shared).
func (m *Model) Clone() *Model {
	c := *m
	c.Vers = make(map[int64]Snap, len(m.Vers))
	for k, v := range m.Vers {
		c.Vers[k] = v
	}
	c.Work = m.Work.Clone()
	c.LastOp = map[string]byte{}
	for k, v := range m.LastOp {
		c.LastOp[k] = v
	}
	c.Written = map[int64]map[string]bool{}
	for k, v := range m.Written {
		c.Written[k] = v
	}
	return &c
}

// DeleteFrom removes versions >= n.
func (m *Model) DeleteFrom(n int64) {
	for v := n; v <= m.Latest; v++ {
		delete(m.Vers, v)
	}
	if n <= m.Latest {
		m.Latest = n - 1
	}
	if m.Latest < m.First {
		m.First, m.Latest = 0, 0
	}
}

// Versions returns the retained versions in ascending order.
func (m *Model) Versions() []int64 {
	var vs []int64
	for v := range m.Vers {
		vs = append(vs, v)
	}
	sort.Slice(vs, func(i, j int) bool { return vs[i] < vs[j] })
	return vs
}
