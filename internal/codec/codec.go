// Package codec is D: an independent encoder/decoder of the pinned iavl on-disk format
// (DESIGN.md Appendix B), written with encoding/binary only. It imports nothing from iavl.
package codec

import (
	"bytes"
	"encoding/binary"
	"errors"
	"fmt"
)

// NK is a node key (version, nonce).
type NK struct {
	Version int64
	Nonce   uint32
}

func (k NK) Bytes() []byte {
	b := make([]byte, 12)
	binary.BigEndian.PutUint64(b, uint64(k.Version))
	binary.BigEndian.PutUint32(b[8:], k.Nonce)
	return b
}

// StoreKey is the raw storage key 's' || version || nonce.
func (k NK) StoreKey() []byte { return append([]byte{'s'}, k.Bytes()...) }

func (k NK) String() string { return fmt.Sprintf("(%d,%d)", k.Version, k.Nonce) }

func ParseNK(b []byte) (NK, error) {
	if len(b) != 12 {
		return NK{}, fmt.Errorf("node key has length %d", len(b))
	}
	return NK{int64(binary.BigEndian.Uint64(b)), binary.BigEndian.Uint32(b[8:])}, nil
}

// Node is a decoded stored node.
type Node struct {
	NK     NK
	Height int8
	Size   int64
	Key    []byte
	Value  []byte // leaf
	Hash   []byte // inner: stored hash
	// children: either new-format keys or 32-byte legacy hashes
	Left, Right             NK
	LeftLegacy, RightLegacy []byte
}

func (n *Node) IsLeaf() bool { return n.Height == 0 }

var errShort = errors.New("codec: truncated input")

func getVarint(b []byte) (int64, int, error) {
	v, n := binary.Varint(b)
	if n <= 0 {
		return 0, 0, errShort
	}
	return v, n, nil
}

func getBytes(b []byte) ([]byte, int, error) {
	l, n := binary.Uvarint(b)
	if n <= 0 {
		return nil, 0, errShort
	}
	if l > uint64(len(b)-n) {
		return nil, 0, errShort
	}
	out := make([]byte, l)
	copy(out, b[n:n+int(l)])
	return out, n + int(l), nil
}

// DecodeNode decodes the stored value of a new-format node.
func DecodeNode(nk NK, b []byte) (*Node, error) {
	n := &Node{NK: nk}
	h, c, err := getVarint(b)
	if err != nil {
		return nil, fmt.Errorf("height: %w", err)
	}
	if h < -128 || h > 127 {
		return nil, errors.New("height out of range")
	}
	n.Height = int8(h)
	b = b[c:]
	if n.Size, c, err = getVarint(b); err != nil {
		return nil, fmt.Errorf("size: %w", err)
	}
	b = b[c:]
	if n.Key, c, err = getBytes(b); err != nil {
		return nil, fmt.Errorf("key: %w", err)
	}
	b = b[c:]
	if n.IsLeaf() {
		if n.Value, c, err = getBytes(b); err != nil {
			return nil, fmt.Errorf("value: %w", err)
		}
		b = b[c:]
		if len(b) != 0 {
			return nil, fmt.Errorf("%d trailing bytes after leaf", len(b))
		}
		return n, nil
	}
	if n.Hash, c, err = getBytes(b); err != nil {
		return nil, fmt.Errorf("hash: %w", err)
	}
	b = b[c:]
	mode, c, err := getVarint(b)
	if err != nil {
		return nil, fmt.Errorf("mode: %w", err)
	}
	b = b[c:]
	if mode < 0 || mode > 3 {
		return nil, errors.New("invalid mode")
	}
	readChild := func(legacy bool) (NK, []byte, error) {
		if legacy {
			hh, c, err := getBytes(b)
			if err != nil {
				return NK{}, nil, err
			}
			b = b[c:]
			return NK{}, hh, nil
		}
		v, c, err := getVarint(b)
		if err != nil {
			return NK{}, nil, err
		}
		b = b[c:]
		no, c, err := getVarint(b)
		if err != nil {
			return NK{}, nil, err
		}
		b = b[c:]
		if no < 0 || no > 0xffffffff {
			return NK{}, nil, errors.New("nonce out of range")
		}
		return NK{v, uint32(no)}, nil, nil
	}
	if n.Left, n.LeftLegacy, err = readChild(mode&1 != 0); err != nil {
		return nil, fmt.Errorf("left: %w", err)
	}
	if n.Right, n.RightLegacy, err = readChild(mode&2 != 0); err != nil {
		return nil, fmt.Errorf("right: %w", err)
	}
	if len(b) != 0 {
		return nil, fmt.Errorf("%d trailing bytes after inner node", len(b))
	}
	return n, nil
}

func putVarint(buf *bytes.Buffer, v int64) {
	var b [binary.MaxVarintLen64]byte
	buf.Write(b[:binary.PutVarint(b[:], v)])
}

func putBytes(buf *bytes.Buffer, bz []byte) {
	var b [binary.MaxVarintLen64]byte
	buf.Write(b[:binary.PutUvarint(b[:], uint64(len(bz)))])
	buf.Write(bz)
}

// EncodeNode encodes a new-format node value.
func EncodeNode(n *Node) []byte {
	var buf bytes.Buffer
	putVarint(&buf, int64(n.Height))
	putVarint(&buf, n.Size)
	putBytes(&buf, n.Key)
	if n.IsLeaf() {
		putBytes(&buf, n.Value)
		return buf.Bytes()
	}
	putBytes(&buf, n.Hash)
	mode := int64(0)
	if n.LeftLegacy != nil {
		mode |= 1
	}
	if n.RightLegacy != nil {
		mode |= 2
	}
	putVarint(&buf, mode)
	if n.LeftLegacy != nil {
		putBytes(&buf, n.LeftLegacy)
	} else {
		putVarint(&buf, n.Left.Version)
		putVarint(&buf, int64(n.Left.Nonce))
	}
	if n.RightLegacy != nil {
		putBytes(&buf, n.RightLegacy)
	} else {
		putVarint(&buf, n.Right.Version)
		putVarint(&buf, int64(n.Right.Nonce))
	}
	return buf.Bytes()
}

// Root entry kinds.
const (
	RootNode  = "node"  // the entry holds the root node itself
	RootRef   = "ref"   // 13-byte reference to an older root
	RootRef9  = "ref9"  // 9-byte pre-lazy-pruning reference
	RootEmpty = "empty" // empty tree
)

// ClassifyRoot classifies the value stored at (v,1).
func ClassifyRoot(val []byte) (kind string, ref NK, err error) {
	if len(val) == 0 {
		return RootEmpty, NK{}, nil
	}
	if val[0] == 's' {
		switch len(val) {
		case 13:
			nk, _ := ParseNK(val[1:])
			return RootRef, nk, nil
		case 9:
			return RootRef9, NK{int64(binary.BigEndian.Uint64(val[1:])), 1}, nil
		default:
			return "", NK{}, fmt.Errorf("invalid reference root of length %d", len(val))
		}
	}
	return RootNode, NK{}, nil
}

// FastNode is a decoded fast-index entry.
type FastNode struct {
	Key     []byte
	Version int64
	Value   []byte
}

func DecodeFast(key, b []byte) (*FastNode, error) {
	v, c, err := getVarint(b)
	if err != nil {
		return nil, err
	}
	b = b[c:]
	val, c, err := getBytes(b)
	if err != nil {
		return nil, err
	}
	if len(b[c:]) != 0 {
		return nil, errors.New("trailing bytes after fast node")
	}
	return &FastNode{Key: key, Version: v, Value: val}, nil
}

func EncodeFast(version int64, value []byte) []byte {
	var buf bytes.Buffer
	putVarint(&buf, version)
	putBytes(&buf, value)
	return buf.Bytes()
}

// LabelKey is the storage key of the storage-version label.
var LabelKey = []byte("mstorage_version")

// LegacyNode is a decoded legacy (hash-keyed) node.
type LegacyNode struct {
	Hash        []byte
	Height      int8
	Size        int64
	Version     int64
	Key         []byte
	Value       []byte
	Left, Right []byte
}

func DecodeLegacyNode(hash, b []byte) (*LegacyNode, error) {
	n := &LegacyNode{Hash: hash}
	h, c, err := getVarint(b)
	if err != nil {
		return nil, err
	}
	n.Height = int8(h)
	b = b[c:]
	if n.Size, c, err = getVarint(b); err != nil {
		return nil, err
	}
	b = b[c:]
	if n.Version, c, err = getVarint(b); err != nil {
		return nil, err
	}
	b = b[c:]
	if n.Key, c, err = getBytes(b); err != nil {
		return nil, err
	}
	b = b[c:]
	if n.Height == 0 {
		if n.Value, _, err = getBytes(b); err != nil {
			return nil, err
		}
		return n, nil
	}
	if n.Left, c, err = getBytes(b); err != nil {
		return nil, err
	}
	b = b[c:]
	if n.Right, _, err = getBytes(b); err != nil {
		return nil, err
	}
	return n, nil
}
