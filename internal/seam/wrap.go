package seam

import (
	"errors"
	"fmt"
	"math/rand"
	"sync"
	"time"

	corestore "cosmossdk.io/core/store"
)

// ErrInjected is the error returned by an injected storage fault.
var ErrInjected = errors.New("seam: injected storage fault")

// Call kinds (bit mask).
const (
	KGet = 1 << iota
	KHas
	KIter      // iterator creation (forward and reverse)
	KIterStep  // iterator Next
	KBSet      // batch Set
	KBDelete   // batch Delete
	KBWrite    // batch Write / WriteSync
	KSet       // direct Set
	KDelete    // direct Delete
	KAllReads  = KGet | KHas | KIter | KIterStep
	KAllWrites = KBSet | KBDelete | KBWrite | KSet | KDelete
	KAll       = KAllReads | KAllWrites
)

func KindName(k int) string {
	switch k {
	case KGet:
		return "Get"
	case KHas:
		return "Has"
	case KIter:
		return "Iterator"
	case KIterStep:
		return "IterNext"
	case KBSet:
		return "BatchSet"
	case KBDelete:
		return "BatchDelete"
	case KBWrite:
		return "BatchWrite"
	case KSet:
		return "Set"
	case KDelete:
		return "Delete"
	}
	return fmt.Sprintf("kind%d", k)
}

// Write is one physical write that reached the inner store: a whole batch, or one direct call.
type Write struct {
	Ops    []WOp
	Direct bool
	Sync   bool
}

// Fired describes an injected fault.
type Fired struct {
	Seq  int
	Kind int
	Key  []byte
}

// Wrap instruments a store. All state is guarded by mu; the inner store does its own locking.
type Wrap struct {
	Inner corestore.KVStoreWithBatch

	mu        sync.Mutex
	recording bool
	log       []Write
	counts    map[string]int
	seq       int // number of fault-able calls seen since ArmFault/ResetSeq
	calls     []int

	failAt    int // sequence number to fail (-1: none)
	failMask  int
	prob      float64
	rng       *rand.Rand
	fired     []Fired
	traceCall bool

	// AsyncWriteDelay delays every non-sync batch Write (not WriteSync) before it is applied:
	// a write issued from a background goroutine then reaches the store later than a write
	// the caller did not wait for it with - which is the order a slow disk would produce.
	AsyncWriteDelay time.Duration
}

func NewWrap(inner corestore.KVStoreWithBatch) *Wrap {
	return &Wrap{Inner: inner, counts: map[string]int{}, failAt: -1}
}

var _ corestore.KVStoreWithBatch = (*Wrap)(nil)

// StartRecording clears the write log and starts recording physical writes.
func (w *Wrap) StartRecording() {
	w.mu.Lock()
	w.recording = true
	w.log = nil
	w.mu.Unlock()
}

// StopRecording stops recording and returns the log.
func (w *Wrap) StopRecording() []Write {
	w.mu.Lock()
	defer w.mu.Unlock()
	w.recording = false
	l := w.log
	w.log = nil
	return l
}

// ResetCounts clears the call counters.
func (w *Wrap) ResetCounts() {
	w.mu.Lock()
	w.counts = map[string]int{}
	w.mu.Unlock()
}

// Counts returns a copy of the call counters. Keys: "<Kind>" and "<Kind>:<first byte of key>".
func (w *Wrap) Counts() map[string]int {
	w.mu.Lock()
	defer w.mu.Unlock()
	c := make(map[string]int, len(w.counts))
	for k, v := range w.counts {
		c[k] = v
	}
	return c
}

// TraceCalls makes the wrapper remember the kind of every fault-able call (for numbering).
func (w *Wrap) TraceCalls(on bool) {
	w.mu.Lock()
	w.traceCall = on
	w.calls = nil
	w.seq = 0
	w.mu.Unlock()
}

// Calls returns the traced call kinds in order.
func (w *Wrap) Calls() []int {
	w.mu.Lock()
	defer w.mu.Unlock()
	return append([]int(nil), w.calls...)
}

// ArmFault makes the n-th (0-based) call among kinds in mask fail once. n<0 disarms.
func (w *Wrap) ArmFault(n int, mask int) {
	w.mu.Lock()
	w.failAt = n
	w.failMask = mask
	w.seq = 0
	w.prob = 0
	w.fired = nil
	w.mu.Unlock()
}

// ArmRandom makes every call among mask fail with probability p.
func (w *Wrap) ArmRandom(p float64, mask int, seed int64) {
	w.mu.Lock()
	w.failAt = -1
	w.failMask = mask
	w.prob = p
	w.rng = rand.New(rand.NewSource(seed))
	w.seq = 0
	w.fired = nil
	w.mu.Unlock()
}

// Seq returns how many calls among the armed mask were seen since arming.
func (w *Wrap) Seq() int {
	w.mu.Lock()
	defer w.mu.Unlock()
	return w.seq
}

// Disarm stops fault injection and returns what fired.
func (w *Wrap) Disarm() []Fired {
	w.mu.Lock()
	defer w.mu.Unlock()
	w.failAt = -1
	w.prob = 0
	w.failMask = 0
	f := w.fired
	w.fired = nil
	return f
}

// call accounts for one call; returns true if it must fail.
func (w *Wrap) call(kind int, key []byte) bool {
	w.mu.Lock()
	defer w.mu.Unlock()
	name := KindName(kind)
	w.counts[name]++
	if len(key) > 0 {
		w.counts[name+":"+string(key[:1])]++
	}
	if w.traceCall {
		w.calls = append(w.calls, kind)
	}
	fail := false
	if w.failMask&kind != 0 {
		if w.failAt >= 0 && w.seq == w.failAt {
			fail = true
		}
		if w.prob > 0 && w.rng.Float64() < w.prob {
			fail = true
		}
		w.seq++
	}
	if fail {
		w.fired = append(w.fired, Fired{Seq: w.seq - 1, Kind: kind, Key: cp(key)})
	}
	return fail
}

func (w *Wrap) Get(key []byte) ([]byte, error) {
	if w.call(KGet, key) {
		return nil, ErrInjected
	}
	return w.Inner.Get(key)
}

func (w *Wrap) Has(key []byte) (bool, error) {
	if w.call(KHas, key) {
		return false, ErrInjected
	}
	return w.Inner.Has(key)
}

func (w *Wrap) Set(key, value []byte) error {
	if w.call(KSet, key) {
		return ErrInjected
	}
	err := w.Inner.Set(key, value)
	if err == nil {
		w.mu.Lock()
		if w.recording {
			w.log = append(w.log, Write{Ops: []WOp{{K: cp(key), V: cpNonNil(value)}}, Direct: true})
		}
		w.mu.Unlock()
	}
	return err
}

func (w *Wrap) Delete(key []byte) error {
	if w.call(KDelete, key) {
		return ErrInjected
	}
	err := w.Inner.Delete(key)
	if err == nil {
		w.mu.Lock()
		if w.recording {
			w.log = append(w.log, Write{Ops: []WOp{{Del: true, K: cp(key)}}, Direct: true})
		}
		w.mu.Unlock()
	}
	return err
}

func (w *Wrap) Close() error { return nil } // the harness owns the inner store's lifetime

func (w *Wrap) Iterator(start, end []byte) (corestore.Iterator, error) {
	if w.call(KIter, start) {
		return nil, ErrInjected
	}
	it, err := w.Inner.Iterator(start, end)
	if err != nil {
		return nil, err
	}
	// the initial positioning is a step of its own: an iterator whose seek failed is invalid from
	// the start and reports the failure through Error() (as a LevelDB iterator does)
	return &wrapIter{w: w, it: it, failed: w.call(KIterStep, start)}, nil
}

func (w *Wrap) ReverseIterator(start, end []byte) (corestore.Iterator, error) {
	if w.call(KIter, start) {
		return nil, ErrInjected
	}
	it, err := w.Inner.ReverseIterator(start, end)
	if err != nil {
		return nil, err
	}
	// the initial positioning is a step of its own: an iterator whose seek failed is invalid from
	// the start and reports the failure through Error() (as a LevelDB iterator does)
	return &wrapIter{w: w, it: it, failed: w.call(KIterStep, start)}, nil
}

type wrapIter struct {
	w      *Wrap
	it     corestore.Iterator
	failed bool
}

func (i *wrapIter) Domain() ([]byte, []byte) { return i.it.Domain() }
func (i *wrapIter) Valid() bool              { return !i.failed && i.it.Valid() }
func (i *wrapIter) Key() []byte              { return i.it.Key() }
func (i *wrapIter) Value() []byte            { return i.it.Value() }
func (i *wrapIter) Close() error             { return i.it.Close() }
func (i *wrapIter) Error() error {
	if i.failed {
		return ErrInjected
	}
	return i.it.Error()
}

func (i *wrapIter) Next() {
	if i.failed {
		return
	}
	if i.w.call(KIterStep, nil) {
		i.failed = true
		return
	}
	i.it.Next()
}

// ---- batch ----

type wrapBatch struct {
	w    *Wrap
	b    corestore.Batch
	ops  []WOp
	done bool
}

func (w *Wrap) NewBatch() corestore.Batch { return &wrapBatch{w: w, b: w.Inner.NewBatch()} }
func (w *Wrap) NewBatchWithSize(n int) corestore.Batch {
	return &wrapBatch{w: w, b: w.Inner.NewBatchWithSize(n)}
}

func (b *wrapBatch) Set(k, v []byte) error {
	if b.w.call(KBSet, k) {
		return ErrInjected
	}
	if err := b.b.Set(k, v); err != nil {
		return err
	}
	b.ops = append(b.ops, WOp{K: cp(k), V: cpNonNil(v)})
	return nil
}

func (b *wrapBatch) Delete(k []byte) error {
	if b.w.call(KBDelete, k) {
		return ErrInjected
	}
	if err := b.b.Delete(k); err != nil {
		return err
	}
	b.ops = append(b.ops, WOp{Del: true, K: cp(k)})
	return nil
}

func (b *wrapBatch) write(sync bool) error {
	if b.w.call(KBWrite, nil) {
		return ErrInjected
	}
	var err error
	if sync {
		err = b.b.WriteSync()
	} else {
		if d := b.w.AsyncWriteDelay; d > 0 {
			time.Sleep(d)
		}
		err = b.b.Write()
	}
	if err != nil {
		return err
	}
	b.w.mu.Lock()
	if b.w.recording && len(b.ops) > 0 {
		b.w.log = append(b.w.log, Write{Ops: b.ops, Sync: sync})
	}
	b.w.mu.Unlock()
	b.ops = nil
	return nil
}

func (b *wrapBatch) Write() error              { return b.write(false) }
func (b *wrapBatch) WriteSync() error          { return b.write(true) }
func (b *wrapBatch) Close() error              { return b.b.Close() }
func (b *wrapBatch) GetByteSize() (int, error) { return b.b.GetByteSize() }

// Dump copies every entry of a store into a fresh MemStore.
func Dump(s corestore.KVStoreWithBatch) (*MemStore, error) {
	if m, ok := s.(*MemStore); ok {
		return m.Clone(), nil
	}
	if w, ok := s.(*Wrap); ok {
		return Dump(w.Inner)
	}
	out := NewMemStore()
	it, err := s.Iterator(nil, nil)
	if err != nil {
		return nil, err
	}
	defer it.Close()
	var ops []WOp
	for ; it.Valid(); it.Next() {
		ops = append(ops, WOp{K: cp(it.Key()), V: cpNonNil(it.Value())})
	}
	out.ApplyOps(ops)
	return out, it.Error()
}
