// Package seam holds the storage-seam machinery: an own ordered in-memory store that can be
// cloned in O(1), and a wrapper around any corestore.KVStoreWithBatch that records physical
// writes, counts calls and injects faults. Nothing in here imports iavl.
package seam

import (
	"bytes"
	"errors"
	"sync"

	corestore "cosmossdk.io/core/store"
	"github.com/google/btree"
)

type kv struct {
	k, v []byte
}

func kvLess(a, b kv) bool { return bytes.Compare(a.k, b.k) < 0 }

// MemStore is a sorted in-memory KV store with copy-on-write snapshots. Iterators are snapshot
// iterators (they see the store as of their creation), so writes while iterating never block.
type MemStore struct {
	mu sync.RWMutex
	t  *btree.BTreeG[kv]
}

var _ corestore.KVStoreWithBatch = (*MemStore)(nil)

func NewMemStore() *MemStore {
	return &MemStore{t: btree.NewG[kv](16, kvLess)}
}

func cp(b []byte) []byte {
	if b == nil {
		return nil
	}
	c := make([]byte, len(b))
	copy(c, b)
	return c
}

var (
	ErrKeyEmpty    = errors.New("seam: key cannot be empty")
	ErrValueNil    = errors.New("seam: value cannot be nil")
	ErrBatchClosed = errors.New("seam: batch has been written or closed")
)

func (s *MemStore) Get(key []byte) ([]byte, error) {
	if len(key) == 0 {
		return nil, ErrKeyEmpty
	}
	s.mu.RLock()
	defer s.mu.RUnlock()
	it, ok := s.t.Get(kv{k: key})
	if !ok {
		return nil, nil
	}
	return cp(it.v), nil
}

func (s *MemStore) Has(key []byte) (bool, error) {
	if len(key) == 0 {
		return false, ErrKeyEmpty
	}
	s.mu.RLock()
	defer s.mu.RUnlock()
	_, ok := s.t.Get(kv{k: key})
	return ok, nil
}

func (s *MemStore) Set(key, value []byte) error {
	if len(key) == 0 {
		return ErrKeyEmpty
	}
	if value == nil {
		return ErrValueNil
	}
	s.mu.Lock()
	defer s.mu.Unlock()
	s.t.ReplaceOrInsert(kv{cp(key), cpNonNil(value)})
	return nil
}

func cpNonNil(b []byte) []byte {
	c := make([]byte, len(b))
	copy(c, b)
	return c
}

func (s *MemStore) Delete(key []byte) error {
	if len(key) == 0 {
		return ErrKeyEmpty
	}
	s.mu.Lock()
	defer s.mu.Unlock()
	s.t.Delete(kv{k: key})
	return nil
}

func (s *MemStore) Close() error { return nil }

// Clone returns an independent copy (lazy, O(1)).
func (s *MemStore) Clone() *MemStore {
	s.mu.Lock()
	defer s.mu.Unlock()
	return &MemStore{t: s.t.Clone()}
}

// Len returns the number of entries.
func (s *MemStore) Len() int {
	s.mu.RLock()
	defer s.mu.RUnlock()
	return s.t.Len()
}

// Ascend calls fn for every entry in order (on a snapshot).
func (s *MemStore) Ascend(fn func(k, v []byte) bool) {
	s.mu.Lock()
	snap := s.t.Clone()
	s.mu.Unlock()
	snap.Ascend(func(i kv) bool { return fn(i.k, i.v) })
}

// Equal reports whether two stores hold the same entries.
func (s *MemStore) Equal(o *MemStore) bool {
	if s.Len() != o.Len() {
		return false
	}
	eq := true
	s.Ascend(func(k, v []byte) bool {
		ov, _ := o.Get(k)
		if ov == nil || !bytes.Equal(ov, v) {
			eq = false
			return false
		}
		return true
	})
	return eq
}

// ApplyOps applies a list of raw write operations atomically.
func (s *MemStore) ApplyOps(ops []WOp) {
	s.mu.Lock()
	defer s.mu.Unlock()
	for _, o := range ops {
		if o.Del {
			s.t.Delete(kv{k: o.K})
		} else {
			s.t.ReplaceOrInsert(kv{cp(o.K), cpNonNil(o.V)})
		}
	}
}

// WOp is one raw write operation.
type WOp struct {
	Del  bool
	K, V []byte
}

func (s *MemStore) Iterator(start, end []byte) (corestore.Iterator, error) {
	if (start != nil && len(start) == 0) || (end != nil && len(end) == 0) {
		return nil, ErrKeyEmpty
	}
	return s.newIter(start, end, false), nil
}

func (s *MemStore) ReverseIterator(start, end []byte) (corestore.Iterator, error) {
	if (start != nil && len(start) == 0) || (end != nil && len(end) == 0) {
		return nil, ErrKeyEmpty
	}
	return s.newIter(start, end, true), nil
}

type memIter struct {
	snap       *btree.BTreeG[kv]
	start, end []byte
	rev        bool
	cur        kv
	valid      bool
}

func (s *MemStore) newIter(start, end []byte, rev bool) *memIter {
	s.mu.Lock()
	snap := s.t.Clone()
	s.mu.Unlock()
	it := &memIter{snap: snap, start: cp(start), end: cp(end), rev: rev}
	it.seekFirst()
	return it
}

func (it *memIter) seekFirst() {
	it.valid = false
	if !it.rev {
		visit := func(i kv) bool {
			if it.end != nil && bytes.Compare(i.k, it.end) >= 0 {
				return false
			}
			it.cur, it.valid = i, true
			return false
		}
		if it.start == nil {
			it.snap.Ascend(visit)
		} else {
			it.snap.AscendGreaterOrEqual(kv{k: it.start}, visit)
		}
		return
	}
	visit := func(i kv) bool {
		if it.end != nil && bytes.Compare(i.k, it.end) >= 0 {
			return true // skip (only possible for the pivot itself)
		}
		if it.start != nil && bytes.Compare(i.k, it.start) < 0 {
			return false
		}
		it.cur, it.valid = i, true
		return false
	}
	if it.end == nil {
		it.snap.Descend(visit)
	} else {
		it.snap.DescendLessOrEqual(kv{k: it.end}, visit)
	}
}

func (it *memIter) Domain() ([]byte, []byte) { return it.start, it.end }
func (it *memIter) Valid() bool              { return it.valid }
func (it *memIter) Error() error             { return nil }
func (it *memIter) Close() error             { it.valid = false; it.snap = nil; return nil }

func (it *memIter) Key() []byte {
	if !it.valid {
		panic("seam: iterator is invalid")
	}
	return cp(it.cur.k)
}

func (it *memIter) Value() []byte {
	if !it.valid {
		panic("seam: iterator is invalid")
	}
	return cp(it.cur.v)
}

func (it *memIter) Next() {
	if !it.valid {
		panic("seam: iterator is invalid")
	}
	prev := it.cur.k
	it.valid = false
	if !it.rev {
		it.snap.AscendGreaterOrEqual(kv{k: prev}, func(i kv) bool {
			if bytes.Equal(i.k, prev) {
				return true
			}
			if it.end != nil && bytes.Compare(i.k, it.end) >= 0 {
				return false
			}
			it.cur, it.valid = i, true
			return false
		})
		return
	}
	it.snap.DescendLessOrEqual(kv{k: prev}, func(i kv) bool {
		if bytes.Equal(i.k, prev) {
			return true
		}
		if it.start != nil && bytes.Compare(i.k, it.start) < 0 {
			return false
		}
		it.cur, it.valid = i, true
		return false
	})
}

// ---- batches ----

type memBatch struct {
	s    *MemStore
	ops  []WOp
	size int
	done bool
}

func (s *MemStore) NewBatch() corestore.Batch            { return &memBatch{s: s} }
func (s *MemStore) NewBatchWithSize(int) corestore.Batch { return &memBatch{s: s} }

func (b *memBatch) Set(k, v []byte) error {
	if len(k) == 0 {
		return ErrKeyEmpty
	}
	if v == nil {
		return ErrValueNil
	}
	if b.done {
		return ErrBatchClosed
	}
	b.ops = append(b.ops, WOp{K: cp(k), V: cpNonNil(v)})
	b.size += len(k) + len(v)
	return nil
}

func (b *memBatch) Delete(k []byte) error {
	if len(k) == 0 {
		return ErrKeyEmpty
	}
	if b.done {
		return ErrBatchClosed
	}
	b.ops = append(b.ops, WOp{Del: true, K: cp(k)})
	b.size += len(k)
	return nil
}

func (b *memBatch) Write() error {
	if b.done {
		return ErrBatchClosed
	}
	b.s.ApplyOps(b.ops)
	b.done = true
	b.ops = nil
	return nil
}

func (b *memBatch) WriteSync() error { return b.Write() }
func (b *memBatch) Close() error     { b.done = true; b.ops = nil; return nil }
func (b *memBatch) GetByteSize() (int, error) {
	if b.done {
		return 0, ErrBatchClosed
	}
	return b.size, nil
}
