// Package ref is R: an independent reference implementation of the IAVL+ rules (DESIGN.md
// Appendix A). Persistent nodes, no caches, no storage, no import of iavl. It computes tree
// shapes, node versions, hashes, node keys (version, nonce) and export streams for a write history.
package ref

import (
	"bytes"
	"crypto/sha256"
	"encoding/binary"
)

// Node is an immutable tree node. Version==0 means "created since the last commit".
type Node struct {
	Key     []byte
	Value   []byte // leaves only
	Height  int8
	Size    int64
	Version int64  // version at which the node was created (assigned at commit)
	Nonce   uint32 // assigned at commit
	Left    *Node
	Right   *Node
	hash    []byte // memoised once Version is assigned
}

func (n *Node) IsLeaf() bool { return n.Height == 0 }

func putVarint(buf *bytes.Buffer, v int64) {
	var b [binary.MaxVarintLen64]byte
	n := binary.PutVarint(b[:], v)
	buf.Write(b[:n])
}

func putUvarint(buf *bytes.Buffer, v uint64) {
	var b [binary.MaxVarintLen64]byte
	n := binary.PutUvarint(b[:], v)
	buf.Write(b[:n])
}

func putBytes(buf *bytes.Buffer, bz []byte) {
	putUvarint(buf, uint64(len(bz)))
	buf.Write(bz)
}

// EmptyHash is the root hash of the empty tree.
func EmptyHash() []byte {
	h := sha256.Sum256(nil)
	return h[:]
}

// HashAt returns the node hash, using workingVersion as the version of not yet committed nodes.
func HashAt(n *Node, workingVersion int64) []byte {
	if n == nil {
		return EmptyHash()
	}
	if n.hash != nil {
		return n.hash
	}
	v := n.Version
	if v == 0 {
		v = workingVersion
	}
	var buf bytes.Buffer
	putVarint(&buf, int64(n.Height))
	putVarint(&buf, n.Size)
	putVarint(&buf, v)
	if n.IsLeaf() {
		putBytes(&buf, n.Key)
		vh := sha256.Sum256(n.Value)
		putBytes(&buf, vh[:])
	} else {
		putBytes(&buf, HashAt(n.Left, workingVersion))
		putBytes(&buf, HashAt(n.Right, workingVersion))
	}
	h := sha256.Sum256(buf.Bytes())
	if n.Version != 0 {
		n.hash = h[:]
	}
	return h[:]
}

func leaf(k, v []byte) *Node {
	return &Node{Key: k, Value: v, Height: 0, Size: 1}
}

func inner(key []byte, l, r *Node) *Node {
	n := &Node{Key: key, Left: l, Right: r}
	n.fix()
	return n
}

func (n *Node) fix() {
	h := n.Left.Height
	if n.Right.Height > h {
		h = n.Right.Height
	}
	n.Height = h + 1
	n.Size = n.Left.Size + n.Right.Size
}

// Set returns the new root and whether the key existed.
func Set(root *Node, k, v []byte) (*Node, bool) {
	if root == nil {
		return leaf(k, v), false
	}
	return set(root, k, v)
}

func set(n *Node, k, v []byte) (*Node, bool) {
	if n.IsLeaf() {
		switch c := bytes.Compare(k, n.Key); {
		case c < 0:
			return inner(n.Key, leaf(k, v), n), false
		case c > 0:
			return inner(k, n, leaf(k, v)), false
		default:
			return leaf(k, v), true
		}
	}
	// every node on the path is re-created
	c := &Node{Key: n.Key, Height: n.Height, Size: n.Size, Left: n.Left, Right: n.Right}
	var updated bool
	if bytes.Compare(k, n.Key) < 0 {
		c.Left, updated = set(n.Left, k, v)
	} else {
		c.Right, updated = set(n.Right, k, v)
	}
	if updated {
		return c, true
	}
	c.fix()
	return balance(c), false
}

func fresh(n *Node) *Node {
	return &Node{Key: n.Key, Value: n.Value, Height: n.Height, Size: n.Size, Left: n.Left, Right: n.Right}
}

func bal(n *Node) int { return int(n.Left.Height) - int(n.Right.Height) }

func rotateRight(n *Node) *Node {
	n = fresh(n)
	l := fresh(n.Left)
	n.Left = l.Right
	l.Right = n
	n.fix()
	l.fix()
	return l
}

func rotateLeft(n *Node) *Node {
	n = fresh(n)
	r := fresh(n.Right)
	n.Right = r.Left
	r.Left = n
	n.fix()
	r.fix()
	return r
}

// balance assumes n is a fresh (uncommitted) node.
func balance(n *Node) *Node {
	b := bal(n)
	if b > 1 {
		if bal(n.Left) >= 0 {
			return rotateRight(n)
		}
		n.Left = rotateLeft(n.Left)
		return rotateRight(n)
	}
	if b < -1 {
		if bal(n.Right) <= 0 {
			return rotateLeft(n)
		}
		n.Right = rotateRight(n.Right)
		return rotateLeft(n)
	}
	return n
}

// Remove returns the new root, the removed value and whether the key existed.
func Remove(root *Node, k []byte) (*Node, []byte, bool) {
	if root == nil {
		return nil, nil, false
	}
	nr, _, val, removed := remove(root, k)
	if !removed {
		return root, nil, false
	}
	return nr, val, true
}

// remove returns (replacement or nil if the node itself vanished, new leftmost key of the
// subtree if it changed, removed value, removed).
func remove(n *Node, k []byte) (*Node, []byte, []byte, bool) {
	if n.IsLeaf() {
		if bytes.Equal(k, n.Key) {
			return nil, nil, n.Value, true
		}
		return n, nil, nil, false
	}
	if bytes.Compare(k, n.Key) < 0 {
		nl, newKey, val, removed := remove(n.Left, k)
		if !removed {
			return n, nil, nil, false
		}
		if nl == nil {
			return n.Right, n.Key, val, true
		}
		c := fresh(n)
		c.Left = nl
		c.fix()
		return balance(c), newKey, val, true
	}
	nr, newKey, val, removed := remove(n.Right, k)
	if !removed {
		return n, nil, nil, false
	}
	if nr == nil {
		return n.Left, nil, val, true
	}
	c := fresh(n)
	c.Right = nr
	if newKey != nil {
		c.Key = newKey
	}
	c.fix()
	return balance(c), nil, val, true
}

// Commit assigns (version, nonce) to every uncommitted node in pre-order (root first, left before
// right), memoises hashes and returns the root hash and the list of new nodes in the order the
// library writes them (post-order of the numbering recursion: children before parents).
func Commit(root *Node, version int64) (hash []byte, newNodes []*Node) {
	if root == nil {
		return EmptyHash(), nil
	}
	var nonce uint32
	var rec func(n *Node)
	rec = func(n *Node) {
		if n.Version != 0 {
			return
		}
		nonce++
		n.Version = version
		n.Nonce = nonce
		if !n.IsLeaf() {
			rec(n.Left)
			rec(n.Right)
		}
		newNodes = append(newNodes, n)
	}
	rec(root)
	return HashAt(root, version), newNodes
}

// Get returns rank and value (nil if absent) like GetWithIndex.
func Get(root *Node, k []byte) (int64, []byte) {
	if root == nil {
		return 0, nil
	}
	n := root
	var idx int64
	for !n.IsLeaf() {
		if bytes.Compare(k, n.Key) < 0 {
			n = n.Left
		} else {
			idx += n.Left.Size
			n = n.Right
		}
	}
	switch bytes.Compare(n.Key, k) {
	case -1:
		return idx + 1, nil
	case 1:
		return idx, nil
	}
	return idx, n.Value
}

// ExportNode mirrors the fields of an exported node.
type ExportNode struct {
	Key     []byte
	Value   []byte
	Version int64
	Height  int8
}

// Export returns the post-order (left, right, node) stream of a committed tree.
func Export(root *Node) []ExportNode {
	var out []ExportNode
	var rec func(n *Node)
	rec = func(n *Node) {
		if n == nil {
			return
		}
		if !n.IsLeaf() {
			rec(n.Left)
			rec(n.Right)
		}
		out = append(out, ExportNode{Key: n.Key, Value: n.Value, Version: n.Version, Height: n.Height})
	}
	rec(root)
	return out
}

// Walk visits every node in pre-order.
func Walk(root *Node, fn func(n *Node) bool) {
	if root == nil {
		return
	}
	if !fn(root) {
		return
	}
	if !root.IsLeaf() {
		Walk(root.Left, fn)
		Walk(root.Right, fn)
	}
}

// Pairs returns the sorted key/value pairs.
func Pairs(root *Node) (keys, vals [][]byte) {
	var rec func(n *Node)
	rec = func(n *Node) {
		if n == nil {
			return
		}
		if n.IsLeaf() {
			keys = append(keys, n.Key)
			vals = append(vals, n.Value)
			return
		}
		rec(n.Left)
		rec(n.Right)
	}
	rec(root)
	return
}

// History tracks the roots of committed versions plus the working root.
type History struct {
	Roots   map[int64]*Node // committed version -> root (nil = empty tree)
	Hashes  map[int64][]byte
	Work    *Node
	Base    int64 // version the working tree derives from (0 = none)
	Initial int64 // configured initial version, used for the first commit only (0 = unset)
}

func NewHistory(initial int64) *History {
	return &History{Roots: map[int64]*Node{}, Hashes: map[int64][]byte{}, Initial: initial}
}

// WorkingVersion is the version the next commit will carry.
func (h *History) WorkingVersion() int64 {
	v := h.Base + 1
	if v == 1 && h.Initial > 0 {
		v = h.Initial
	}
	return v
}

func (h *History) Set(k, v []byte) bool {
	var upd bool
	h.Work, upd = Set(h.Work, k, v)
	return upd
}

func (h *History) Remove(k []byte) ([]byte, bool) {
	nr, val, ok := Remove(h.Work, k)
	h.Work = nr
	return val, ok
}

func (h *History) WorkingHash() []byte { return HashAt(h.Work, h.WorkingVersion()) }

// Commit commits the working tree as WorkingVersion() (the caller has checked that the version
// is new) and returns hash, version and the new nodes.
func (h *History) Commit() ([]byte, int64, []*Node) {
	v := h.WorkingVersion()
	hash, nn := Commit(h.Work, v)
	h.Roots[v] = h.Work
	h.Hashes[v] = hash
	h.Base = v
	h.Initial = 0
	return hash, v, nn
}

// LoadVersion sets the working tree to committed version v.
func (h *History) LoadVersion(v int64) {
	h.Work = h.Roots[v]
	h.Base = v
}

// Rollback discards uncommitted changes.
func (h *History) Rollback() {
	if h.Base == 0 {
		h.Work = nil
		return
	}
	h.Work = h.Roots[h.Base]
}

// Drop forgets version v.
func (h *History) Drop(v int64) {
	delete(h.Roots, v)
	delete(h.Hashes, v)
}

// HasUncommitted reports whether the working root is an uncommitted node (or differs from base).
func (h *History) HasUncommitted() bool {
	if h.Work == nil {
		return h.Base != 0 && h.Roots[h.Base] != nil
	}
	return h.Work.Version == 0
}

// Clone returns a copy of the history (nodes are immutable and shared).
func (h *History) Clone() *History {
	c := *h
	c.Roots = make(map[int64]*Node, len(h.Roots))
	for k, v := range h.Roots {
		c.Roots[k] = v
	}
	c.Hashes = make(map[int64][]byte, len(h.Hashes))
	for k, v := range h.Hashes {
		c.Hashes[k] = v
	}
	return &c
}

// NewCommitted builds an already committed node (used to load trees written by another library).
func NewCommitted(key, value []byte, height int8, size, version int64, left, right *Node) *Node {
	return &Node{Key: key, Value: value, Height: height, Size: size, Version: version, Nonce: 0, Left: left, Right: right}
}
