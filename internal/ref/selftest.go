package ref

import (
	"encoding/hex"
	"fmt"
	"math/rand"
	"sync"
)

var (
	selfOnce sync.Once
	selfMsg  string
)

// SelfTest replays the workload of the repository's golden-hash test (TestTreeHash: seed
// 49872768940, 4 versions x 4096 create/update/delete operations) on R and compares the four root
// hashes with the values pinned in the repository. Returns "" if R reproduces them.
func SelfTest() string {
	selfOnce.Do(func() { selfMsg = selfTest() })
	return selfMsg
}

func selfTest() string {
	if hex.EncodeToString(EmptyHash()) != "e3b0c44298fc1c149afbf4c8996fb92427ae41e4649b934ca495991b7852b855" {
		return "empty tree hash"
	}
	const (
		randSeed    = 49872768940
		keySize     = 16
		valueSize   = 16
		versions    = 4
		versionOps  = 4096
		updateRatio = 0.4
		deleteRatio = 0.2
	)
	expect := []string{
		"58ec30fa27f338057e5964ed9ec3367e59b2b54bec4c194f10fde7fed16c2a1c",
		"91ad3ace227372f0064b2d63e8493ce8f4bdcbd16c7a8e4f4d54029c9db9570c",
		"92c25dce822c5968c228cfe7e686129ea281f79273d4a8fcf6f9130a47aa5421",
		"e44d170925554f42e00263155c19574837a38e3efed8910daccc7fa12f560fa0",
	}
	r := rand.New(rand.NewSource(randSeed))
	h := NewHistory(0)
	keys := make([][]byte, 0, versionOps)
	for i := 0; i < versions; i++ {
		for j := 0; j < versionOps; j++ {
			key := make([]byte, keySize)
			value := make([]byte, valueSize)
			switch {
			case len(keys) > 0 && r.Float64() <= deleteRatio:
				index := r.Intn(len(keys))
				key = keys[index]
				keys = append(keys[:index], keys[index+1:]...)
				if _, ok := h.Remove(key); !ok {
					return "golden workload: remove of a present key reported absent"
				}
			case len(keys) > 0 && r.Float64() <= updateRatio:
				key = keys[r.Intn(len(keys))]
				r.Read(value)
				if !h.Set(key, value) {
					return "golden workload: update reported as insert"
				}
			default:
				r.Read(key)
				r.Read(value)
				if h.Set(key, value) {
					return "golden workload: insert reported as update"
				}
				keys = append(keys, key)
			}
		}
		hash, v, _ := h.Commit()
		if v != int64(i+1) || hex.EncodeToString(hash) != expect[i] {
			return fmt.Sprintf("golden hash of version %d: got %x want %s", i+1, hash, expect[i])
		}
	}
	return ""
}
