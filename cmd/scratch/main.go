package main

import (
	"fmt"

	"github.com/cosmos/iavl"

	"verif/internal/seam"
)

func main() {
	st := seam.NewMemStore()
	t := iavl.NewMutableTree(st, 0, false, iavl.NewNopLogger())
	t.Set([]byte("k1"), []byte("v1"))
	fmt.Println(t.Load())
	t.Rollback()
	v, err := t.Get([]byte("k1"))
	fmt.Printf("after rollback Get=%q %v\n", v, err)
	_, w, _ := t.GetWithIndex([]byte("k1"))
	fmt.Printf("walk=%q\n", w)
	t.Set([]byte("k2"), []byte("v2"))
	fmt.Println(t.SaveVersion())
	v, err = t.Get([]byte("k1"))
	fmt.Printf("after save Get(k1)=%q %v\n", v, err)
	t2 := iavl.NewMutableTree(st, 0, false, iavl.NewNopLogger())
	fmt.Println(t2.Load())
	v, err = t2.Get([]byte("k1"))
	fmt.Printf("reopened Get(k1)=%q %v\n", v, err)
}
