package main

import (
	"fmt"
	"os"

	iavl2 "github.com/cosmos/iavl/v2"
)

type lg struct{}

func (lg) Info(string, ...any)  {}
func (lg) Warn(string, ...any)  {}
func (lg) Debug(string, ...any) {}
func (lg) Error(msg string, kv ...any) { fmt.Println("ERROR", msg, kv) }

func main() {
	for i := 0; i < 300; i++ {
		dir, _ := os.MkdirTemp("", "v2close")
		pool := iavl2.NewNodePool()
		sql, err := iavl2.NewSqliteDb(pool, iavl2.SqliteDbOptions{Path: dir, Logger: lg{}})
		if err != nil {
			panic(err)
		}
		opts := iavl2.DefaultTreeOptions()
		opts.CheckpointInterval = 1
		opts.StateStorage = true
		t := iavl2.NewTree(sql, pool, opts)
		for v := 0; v < 3; v++ {
			t.Set([]byte(fmt.Sprintf("k%d", v)), []byte("v"))
			if _, _, err := t.SaveVersion(); err != nil {
				panic(err)
			}
		}
		if err := t.DeleteVersionsTo(2); err != nil {
			panic(err)
		}
		if err := t.Close(); err != nil {
			fmt.Println("close error:", err)
		}
		os.RemoveAll(dir)
	}
	fmt.Println("survived 300 rounds of DeleteVersionsTo + Close")
}
