package main

import (
	"fmt"

	"github.com/cosmos/iavl"

	"verif/internal/seam"
)

func main() {
	st := seam.NewMemStore()
	t := iavl.NewMutableTree(st, 0, false, iavl.NewNopLogger())
	t.Load()
	for i := 1; i <= 12; i++ {
		t.Set([]byte(fmt.Sprintf("k%d", i)), []byte("v"))
		t.SaveVersion()
	}
	t.DeleteVersionsTo(3)
	for n := 0; n < 40; n++ {
		w := seam.NewWrap(st.Clone())
		w.ArmFault(n, seam.KHas)
		h := iavl.NewMutableTree(w, 0, false, iavl.NewNopLogger())
		lv, err := h.LoadVersion(10)
		fired := w.Disarm()
		if len(fired) == 0 {
			break
		}
		fmt.Println("fault", n, "LoadVersion(10) =", lv, err, "avail", h.AvailableVersions(), h.VersionExists(4))
	}
}
