package main

import (
	"fmt"
	"time"

	"github.com/cosmos/iavl"

	"verif/internal/seam"
)

func main() {
	st := seam.NewMemStore()
	t := iavl.NewMutableTree(st, 100, false, iavl.NewNopLogger(), iavl.AsyncPruningOption(true))
	t.Load()
	for i := 1; i <= 5; i++ {
		t.Set([]byte(fmt.Sprintf("k%d", i)), []byte("v"))
		t.SaveVersion()
	}
	fmt.Println("del", t.DeleteVersionsTo(3))
	for i := 0; i < 100 && t.VersionExists(3); i++ {
		time.Sleep(20 * time.Millisecond)
	}
	fmt.Println("avail", t.AvailableVersions())
	for v := int64(1); v <= 6; v++ {
		_, e1 := t.GetImmutable(v)
		val, e2 := t.GetVersioned([]byte("k1"), v)
		fmt.Println(v, "exists", t.VersionExists(v), "getimm err", e1, "getversioned", string(val), e2)
	}
	t2 := iavl.NewMutableTree(st, 100, false, iavl.NewNopLogger())
	fmt.Println(t2.Load())
	fmt.Println("fresh handle avail", t2.AvailableVersions())
	for v := int64(1); v <= 5; v++ {
		_, err := t.LoadVersion(v)
		fmt.Println("load", v, err, t.Version())
	}
}
