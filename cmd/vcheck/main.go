// Command vcheck is the single entry point of all property checks.
//
//	vcheck run <Cnn> <tier>            parent: spawns workers, aggregates, writes evidence
//	vcheck worker <Cnn> <tier> ...     child: runs one shard of the case list
//	vcheck replay <file>               re-executes one recorded case verbosely
//	vcheck case <Cnn> <tier> <index>   runs one case verbosely
package main

import (
	"flag"
	"fmt"
	"os"
	"strconv"

	_ "verif/internal/checks"
	"verif/internal/fw"
)

func seedFromEnv() int64 {
	if s := os.Getenv("VERIF_SEED"); s != "" {
		if v, err := strconv.ParseInt(s, 10, 64); err == nil {
			return v
		}
	}
	return 1
}

func main() {
	if len(os.Args) < 2 {
		fmt.Println("usage: vcheck run|worker|replay|case ...")
		os.Exit(3)
	}
	switch os.Args[1] {
	case "run":
		if len(os.Args) < 4 {
			fmt.Println("usage: vcheck run <Cnn> <tier>")
			os.Exit(3)
		}
		self, _ := os.Executable()
		dir := os.Getenv("VERIF_DIR")
		if dir == "" {
			dir, _ = os.Getwd()
		}
		os.Exit(fw.ParentMain(fw.Options{Prop: os.Args[2], Tier: os.Args[3], Seed: seedFromEnv(), VerifDir: dir, Self: self}))
	case "worker":
		fs := flag.NewFlagSet("worker", flag.ExitOnError)
		seed := fs.Int64("seed", 1, "")
		shard := fs.Int("shard", 0, "")
		of := fs.Int("of", 1, "")
		from := fs.Int("from", 0, "")
		out := fs.String("out", "", "")
		tmp := fs.String("tmp", os.TempDir(), "")
		_ = fs.Parse(os.Args[4:])
		os.Exit(fw.WorkerMain(os.Args[2], os.Args[3], *seed, *shard, *of, *from, *out, *tmp))
	case "replay":
		os.Exit(fw.ReplayMain(os.Args[2]))
	case "case":
		ch := fw.Lookup(os.Args[2])
		if ch == nil {
			fmt.Println("unknown check")
			os.Exit(3)
		}
		idx, _ := strconv.Atoi(os.Args[4])
		tmp, _ := os.MkdirTemp("", "verif-case-")
		defer os.RemoveAll(tmp)
		res := fw.RunCase(ch, seedFromEnv(), os.Args[3], idx, true, tmp)
		fmt.Printf("case %d: %d violations, nontrivial=%v obs=%v\n", idx, len(res.Violations), res.Nontrivial, res.Obs)
		if len(res.Violations) > 0 {
			os.Exit(1)
		}
	case "list":
		for _, id := range fw.IDs() {
			fmt.Println(id)
		}
	default:
		fmt.Println("unknown sub-command", os.Args[1])
		os.Exit(3)
	}
}
