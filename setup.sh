#!/bin/bash
# Run once after a fresh restore (offline): pre-builds every checker variant so that the checks
# only pay an incremental rebuild of the iavl packages.
set -u
cd "$(dirname "$0")"
export GOFLAGS=-mod=mod GOPROXY=off GOSUMDB=off GOTOOLCHAIN=local
mkdir -p bin evidence
go build -tags verif -o bin/vcheck-plain ./cmd/vcheck 2>&1 | grep -v -e sqlite3.c -e 'warning:' -e '^ *[0-9|]' -e 'note:' -e '~~~' || true
go build -tags verif -race -o bin/vcheck-race ./cmd/vcheck 2>&1 | grep -v -e sqlite3.c -e 'warning:' -e '^ *[0-9|]' -e 'note:' -e '~~~' || true
(cd legacygen && go build -o ../bin/legacygen . ) || true
test -x bin/vcheck-plain && test -x bin/legacygen
