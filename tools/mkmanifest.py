#!/usr/bin/env python3
"""Regenerates /verif/MANIFEST.json from the table below (single source of truth for the
registered checks). Run after adding or removing a check: python3 tools/mkmanifest.py"""
import json, os, subprocess, sys

HERE = os.path.dirname(os.path.dirname(os.path.abspath(__file__)))

# id -> (category, technique, level text, level note, design ref)
CHECKS = {
    "C01": ("exploration",
            "runtime monitoring: reference-model (versioned map) monitor at the client boundary, after every step of generated hostile histories, 3 configurations per history",
            "Every public read (Get, Has, GetWithIndex, GetByIndex, Size, Iterate, GetVersioned) of the working tree and of every retained version is compared with a versioned-map model after every step of thousands of short generated histories (tiny key universes, adjacent/prefix keys, no-op commits, small flush thresholds, reopenings at latest or older versions, pruning, rollbacks), each history executed under 3 independently drawn configurations incl. MemDB/PrefixDB/GoLevelDB. Held on the executions observed; not a proof.",
            "Trusted: the ~150-line model M; the instrumented storage seam. Histories are short (<=120 ops), DeleteVersionsTo only below the version the working tree is based on.",
            "DESIGN.md §3 C01"),
    "C04": ("exploration",
            "runtime monitoring: before/after observation vectors (hash, contents, reads, ICS-23 proof verification) around every DeleteVersionsTo, live and after reopen; raw-store comparison for rejected requests; export pin",
            "Around every DeleteVersionsTo(n) in thousands of generated histories (no-op commits, empty versions, single-leaf roots, rollbacks + rewrites, deletions split over several physical batches by small flush thresholds), an observation vector of every later version is recorded before and compared after the call, on the live handle and on a freshly opened one; deleted versions must be unavailable on every API; rejected requests (latest version, version pinned by an open Exporter) must leave the raw store byte-identical.",
            "Trusted: model M, the ics23 verifier. Synchronous pruning only (async pruning is exercised by C06).",
            "DESIGN.md §3 C04"),
    "C12": ("exploration",
            "runtime monitoring: raw-storage audit after every step with an independent decoder (reachability from the retained versions, leak detection, fast-index entries and label)",
            "After every step of thousands of crash-free histories the raw store is decoded with the independent decoder D and audited: every retained version decodable with all child links resolving and contents equal to the model, every stored node reachable from a retained version, fast index entries + label describing exactly the latest version.",
            "Trusted: decoder D and model M (R is deliberately not used). Synchronous pruning, no faults.",
            "DESIGN.md §3 C12"),
    "C14": ("exploration",
            "runtime monitoring: version-range model compared with every bookkeeping API after every step, on the live handle and on a fresh handle; raw-store comparison for rejected requests",
            "After every step: commit numbering, VersionExists / AvailableVersions / GetImmutable / GetLatestVersion / GetVersioned / LoadVersion for every version number in {0,1,first-2..latest+1} on the live handle and after a reopen; re-commit of an existing version number accepted iff the reference tree says the hash is identical; rejected requests leave the raw store byte-identical and the tree usable.",
            "Trusted: model M (range), reference tree R (hash equality of re-commits).",
            "DESIGN.md §3 C14"),
}

NOT_YET = "check not built yet (construction in progress, see DESIGN.md Appendix C)"
NOT_APPLICABLE = {}

def hook_commits():
    p = os.path.join(HERE, "hooks_commits.txt")
    if os.path.exists(p):
        return [l.strip() for l in open(p) if l.strip()]
    return []

def main():
    props = [json.loads(l)["id"] for l in open(os.path.join(HERE, "properties.jsonl"))]
    checks = []
    na = []
    for pid in props:
        if pid in CHECKS:
            cat, tech, text, note, ref = CHECKS[pid]
            checks.append({
                "property_id": pid,
                "quick_cmd": "./run.sh %s quick" % pid,
                "thorough_cmd": "./run.sh %s thorough" % pid,
                "evidence_file": "/verif/evidence/%s.json" % pid,
                "replay_cmd_template": "./run.sh %s --replay {path}" % pid,
                "engine": "vcheck",
                "level_claimed": {"category": cat, "text": text, "design_ref": ref},
                "level_note": note,
                "technique": tech,
            })
        else:
            na.append({"property_id": pid, "reason": NOT_APPLICABLE.get(pid, NOT_YET)})
    m = {
        "version": 1,
        "setup_cmd": "./setup.sh",
        "hooks": {
            "guard": "verif",
            "enable": "go build -tags verif (run.sh builds cmd/vcheck against /repo's working tree in place through the replace directives of /verif/go.mod; hook files are *_verif.go with //go:build verif, stubs in *_noverif.go)",
            "baseline_off_cmd": "cd /repo && export GOFLAGS=-mod=mod GOPROXY=off GOSUMDB=off GOTOOLCHAIN=local && go test -vet=off -count=1 -timeout 25m ./... && cd v2 && go test -vet=off -count=1 -timeout 25m ./...",
            "source_commits": hook_commits(),
            "add_only": True,
        },
        "engines": [{
            "name": "vcheck",
            "path": "/verif/cmd/vcheck",
            "serves_properties": sorted(CHECKS.keys()),
            "kind_free_text": "Go harness: deterministic case lists per (VERIF_SEED, tier), one worker process per shard (a panic / fatal error / os.Exit in iavl is an observation, not the end of the run), oracles M (versioned map), R (independent IAVL+ reference), D (independent codec), storage-seam wrappers (write log, call counters, fault injection), race detector builds",
        }],
        "checks": checks,
        "not_applicable": na,
        "notes": "Technique family: runtime monitoring and sanitizers. Exit codes: 0 held on everything observed; 1 VIOLATION; 2 INCONCLUSIVE (build failure, watchdog, observation floor not met). Known genuine defects that were not repaired are in known_findings.json; repaired ones are listed there under 'fixed'.",
    }
    json.dump(m, open(os.path.join(HERE, "MANIFEST.json"), "w"), indent=1)
    print("wrote MANIFEST.json with %d checks, %d not claimed" % (len(checks), len(na)))

if __name__ == "__main__":
    main()
