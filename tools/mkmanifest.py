#!/usr/bin/env python3
"""Regenerates /verif/MANIFEST.json from the table below (single source of truth for the
registered checks). Run after adding or removing a check: python3 tools/mkmanifest.py"""
import json, os, subprocess, sys

HERE = os.path.dirname(os.path.dirname(os.path.abspath(__file__)))

# id -> (category, technique, level text, level note, design ref)
CHECKS = {
    "C01": ("exploration",
            "runtime monitoring: reference-model (versioned map) monitor at the client boundary, after every step of generated hostile histories, 3 configurations per history",
            "Every public read (Get, Has, GetWithIndex, GetByIndex, Size, Iterate, GetVersioned) of the working tree and of every retained version is compared with a versioned-map model after every step of thousands of short generated histories (tiny key universes, adjacent/prefix keys, no-op commits, small flush thresholds, reopenings at latest or older versions, pruning, rollbacks), each history executed under 3 independently drawn configurations incl. MemDB/PrefixDB/GoLevelDB. Held on the executions observed; not a proof.",
            "Trusted: the ~150-line model M; the instrumented storage seam. Histories are short (<=120 ops), DeleteVersionsTo only below the version the working tree is based on.",
            "DESIGN.md §3 C01"),
    "C02": ("exploration",
            "runtime monitoring: independent reference implementation R (validated against the repository's golden hashes on every case) compared with every hash the tree exposes after every step; twin run with read-only calls interleaved",
            "Every SaveVersion hash, WorkingHash, Hash() and the ImmutableTree.Hash of every retained version are compared after every step with R, for histories with reopen / prune / rollback / rollback-to-version / redo of an existing version / non-default initial versions, executed twice: bare and with random read-only calls (reads, iteration, proofs, hash queries on working and committed trees) interleaved, also before the first commit; export/import hash for one history in three.",
            "Trusted: R (internal/ref, no iavl import; re-validated against TestTreeHash's golden hashes in every process). In the run with interleaved reads the monitor deliberately does not call WorkingHash itself (it would memoise hashes and mask what it looks for).",
            "DESIGN.md §3 C02"),
    "C03": ("exploration",
            "runtime monitoring: ICS-23 verification oracle (ics23.IavlSpec) over every probe key of every retained version and the working tree, with negative bindings",
            "For every non-empty retained version (up to 4 newest per checkpoint) and the working tree, for every probe key: proof kind, content, verification against the version's root, non-membership neighbours = adjacent keys of the model, wrong-kind requests must fail, and the proof must not verify for another value / key / kind / root of a version where the claim is false.",
            "Trusted: the ics23 verifier and IavlSpec; model M. Leaves with an empty value cannot be verified by ics23 and are checked for kind/content only.",
            "DESIGN.md §3 C03"),
    "C05": ("fault_enumeration",
            "runtime monitoring with systematic crash-point enumeration: physical-write log recorded at the storage seam, every prefix image materialised and judged by reopen + model/reference oracle + retry of the interrupted operation",
            "Every boundary between two physical batch writes of every SaveVersion, DeleteVersionsTo, LoadVersionForOverwriting, fast-index build on open and import commit in generated histories (flush thresholds 150..default) is materialised as a storage image; a fresh tree must Load() it, show the version set before or after (contiguous intermediate for multi-version deletions), read every version correctly on every path (walk, Iterator, fast Get, GetVersioned) with both fast-index settings, and repeating the operation must reach the crash-free result.",
            "Crash model as stated by the property (atomic ordered batch writes; no torn batches; backend durability not modelled). Oracles M and R.",
            "DESIGN.md §3 C05"),
    "C06": ("exploration",
            "sanitizer + runtime monitoring: Go race detector over a writer/readers stress workload with widened windows; snapshot oracle for every concurrent read; deterministic parking of the writer at verif yield points (hook points x reader operations enumerated, commit rounds on cold handles); pause/between schedules at the storage seam; a deliberate canary race proving the report path; porcupine linearizability check of the commit/prune/open visibility history; export-pin protocol check",
            "Race-detector build. Stress runs (8 configurations x repetitions x 2-16 readers) with every reader result compared to the snapshot published at commit; oracle mode parks the writer at the protocol boundaries and runs every reader operation there; visibility history checked against the per-version model; pinned versions cannot be deleted.",
            "Only schedules that happened are judged. Race reports are attributed to iavl only if both stacks contain a non-test iavl frame. MutableTree methods other than GetImmutable are not called concurrently (outside the statement).",
            "DESIGN.md §3 C06"),
    "C18": ("exploration",
            "runtime monitoring: differential execution of random KV programs on all bundled backends and nestings against a sorted-map model, with sentinel keys around prefix ranges, a concurrent batch-atomicity probe and point writes from a second goroutine against an open iterator",
            "Random programs of point ops, rejected writes, bounded forward/reverse iterators and batch life cycles over a 0x00/0xFF-heavy alphabet on MemDB, GoLevelDB, PrefixDB(MemDB), PrefixDB(GoLevelDB), PrefixDB(PrefixDB(MemDB)); parents hold sentinels below/at/above the prefix range incl. the 0xFF carry case. One case in 17 opens an iterator over 150-600 of 1000 keys on every backend while a second goroutine deletes and sets keys outside its domain: the iterator yields exactly its domain and the writes take effect.",
            "Trusted: the sorted-map model. Key()/Next() are never called on invalid iterators.",
            "DESIGN.md §3 C18"),
    "C16": ("exploration",
            "runtime monitoring: databases written by the real legacy library (iavl v0.20.0) opened by the current one; generator record, model and reference tree as oracles after every step of follow-up histories",
            "Each case builds a legacy GoLevelDB with the real v0.20.0 library (seeded history, with/without legacy-side deletions) and runs several follow-up histories on fresh copies with the current library: opening state vs the generator's record (availability, contents, hashes), then commits with/without writes, pruning below/at/above the boundary, rollbacks into the legacy range and reopenings, judged after every step by M and R (legacy trees decoded from raw storage by D and re-hashed by R).",
            "Trusted: iavl v0.20.0 + cometbft-db v0.7.0 as generator/oracle, D, M, R. Two genuine defects in the legacy path are recorded in known_findings.json (non-unique (v,0) key of re-saved legacy roots). Rollbacks into the legacy range are repeated under C17's single-fault enumeration; deletions across the boundary are also tried while an Exporter pins a covered version (rejected, store unchanged, nothing hidden).",
            "DESIGN.md §3 C16"),
    "C07": ("exploration",
            "runtime monitoring: differential monitor indexed reads vs tree-walk reads after every step, plus raw fast-index audit with the independent decoder, every (re)open choosing index on/off and the version to load",
            "After every step: Get vs GetWithIndex, MutableTree.Iterator/Iterate vs IterateRange, GetVersioned vs GetImmutable(v).GetWithIndex on working tree (incl. uncommitted changes), latest and older versions; raw 'f' entries and label vs the model after every commit/open with the index enabled.",
            "Trusted: tree-walk reads as reference (guarded by the model battery), decoder D.",
            "DESIGN.md §3 C07"),
    "C08": ("exploration",
            "runtime monitoring: model-based oracle over (start,end,direction) triples for all iteration interfaces and iterator implementations, incl. object-level contract (Domain, Valid after end/Close, Error, stop requests)",
            "All ordered pairs of bounds from {nil, empty, stored keys, byte neighbours, prefixes, extensions, overlay-only / disk-only keys, below-min, above-max} x 2 directions (sampled) on committed, dirty working, historical and empty states; tree-walk Iterator, FastIterator, UnsavedFastIterator, IterateRange, IterateRangeInclusive, Iterate all against the model.",
            "Trusted: model M and the stated bound conventions; Next() is never called on an invalid iterator.",
            "DESIGN.md §3 C08"),
    "C09": ("exploration",
            "runtime monitoring: twin-run differential monitor (rolled-back tree vs fresh tree that replayed only the surviving history) in lock-step, plus model/reference/raw-audit monitors",
            "Rollback(): working tree equals the last committed version on every read path. Rollback to v: later versions unavailable everywhere (live and reopened), kept versions unchanged, and every later outcome compared step by step with a twin; M/R/raw audit on the rolled-back store.",
            "Trusted: M, R; twin construction from recorded per-version writes. Raw-store equality with the twin is recorded only.",
            "DESIGN.md §3 C09"),
    "C10": ("exploration",
            "runtime monitoring: export stream vs reference post-order stream, import round trips (plain/compressed) judged by hash, model reads, ICS-23 proofs, raw audit and future commit hashes; hostile-stream fuzzing of the importers with panic/visibility oracle; three-batch imports with every batch write failed once (deadlock verdict from goroutine dumps)",
            "Fidelity on generated histories incl. empty tree, single leaf, reference roots and >10000-node imports; totality on ~48000 (quick) hostile ExportNode sequences: no panic, and nothing visible unless Commit succeeded; compressed streams also announce shared-prefix lengths around 2^31, 2^32, 2^63 and 2^64-1.",
            "Trusted: R (stream, future hashes), M, ics23. Storage faults during import are C17's subject.",
            "DESIGN.md §3 C10"),
    "C11": ("exploration",
            "runtime monitoring: shape invariants (AVL height bound, rank/key inverse) at checkpoints and per-call storage read counts through a counting storage wrapper with cache size 0",
            "Insertion/removal phases up to 512 (quick) / 4096 (thorough) keys; Height() <= 1.4405*log2(n+2), GetByIndex/GetWithIndex inverse and consistent with sorted order incl. absent keys and out-of-range ranks; stored-node reads per call <= 2h+2 (Get, GetWithIndex, GetByIndex, Has) and <= 10h+10 (GetProof).",
            "Trusted: model M; read counts taken at the storage seam ('s' key space), cache 0, fast index off.",
            "DESIGN.md §3 C11"),
    "C13": ("exploration",
            "runtime monitoring: independent codec D vs reference tree R on raw storage after every step (byte-exact), D-encoded databases opened by the library, and decoder fuzzing with panic / allocation oracle",
            "Forward and reverse format checks on generated histories (reference roots in 13- and 9-byte form, empty roots, fast index, varint boundary versions) and ~120000 (quick) mutated/random inputs to MakeNode, MakeLegacyNode, DeserializeNode, the varint/bytes decoders and the reference-root reader (incl. reference roots that name their own entry or a neighbour that refers back).",
            "Trusted: D and R. A child link naming a pruned version's old root by its re-keyed key (v,0) is accepted as the same node (the library writes and resolves both).",
            "DESIGN.md §3 C13"),
    "C15": ("exploration",
            "runtime monitoring: model-based oracle for extracted change sets (net writes per version) and replay of the extracted sets into an empty tree",
            "TraverseStateChanges over full and random sub-ranges after every commit: each delivered version equals the model's net change (ascending, once per key, set entries also for unchanged values, delete entries for vanished keys), requested versions delivered; SaveChangeSet replay reproduces contents of every version, root hashes when the original writes were in normal form, and rejects removal of a missing key.",
            "Trusted: model M incl. its per-version 'last op was a Set' bookkeeping; R for original hashes. Change sets that are not in normal form are applied pair by pair (two removals of one key in a row must be rejected; a key set and removed inside the set is not missing); 1 history in 125 has a version touching a contiguous run of 1100-2000 keys.",
            "DESIGN.md §3 C15"),
    "C17": ("fault_enumeration",
            "runtime monitoring with systematic single-fault enumeration at the storage seam (every storage call of every public operation fails once) plus random multi-fault runs; differential oracle against the fault-free result and the C05 state oracle; same-handle follow-up after every fault; never-returning calls decided from goroutine dumps",
            "Each public operation with an error result is run fault-free on a fresh handle to number its storage calls, then once per call index with exactly that call failing (Get, Has, iterator creation/step, batch Set/Delete/Write): it must return an error or exactly the fault-free result, never panic; a write operation with a failed write must not report success, and the store left behind must reopen to the state before or after.",
            "Faults are injected at the corestore interface; a failed batch write applies nothing; a failed seek leaves an iterator that is invalid from the start with Error() set. After a deletion or rollback that reported its fault the operation is repeated on the same handle with healthy storage: a repetition that reports success must leave the state after the operation. Operations without an error result are outside the statement.",
            "DESIGN.md §3 C17"),
    "C19": ("exploration",
            "runtime monitoring: differential execution v2 vs v1 vs reference tree vs model on the same per-version write sets, over all 80 option combinations, reads and bounded iterators after every commit (and on uncommitted states)",
            "Normal-form histories incl. empty versions, identical rewrites and trees shrinking to empty on a v2 tree over on-disk SQLite; after every commit root hash (v2 = v1 = R), Hash, Version, Size, Height, Get/Has of every probe key and forward / inclusive / reverse iterators over the C08 bound set against M. Worker processes absorb os.Exit / panics of the SQLite writer goroutines.",
            "Trusted: M, R, v1 as second reference. The values returned by v2 Set/Remove are recorded, not judged (not part of the statement). Pool-poisoning hook and ASan build were not built.",
            "DESIGN.md §3 C19"),
    "C20": ("exploration",
            "runtime monitoring: close/reopen differential - every version reloaded by a fresh tree and compared with the recorded hash and the model; continuation compared with the reference; prune + reopen; snapshot round trips (SaveSnapshot/LoadSnapshot, Export -> WriteSnapshot -> LoadSnapshot in both orders); commits under a foreign SQLite write lock (acknowledged commits must reload)",
            "For every version t of a generated history LoadVersion(t) on a fresh tree must reproduce hash, size, reads and iteration (targets on / just after / far after a checkpoint); continuing from the reloaded latest must reproduce the reference's hashes; after DeleteVersionsTo(n) has drained (bounded polling of the SQLite files) the latest version and all versions from the last checkpoint not after n must load; snapshots import to the source version's hash and contents. Every 32nd case is a prune with a large backlog (3000 keys) that is still running when the history goes on and the next checkpoint is saved (overlap observed and counted): the process must survive and versions from the prune point on must reload exactly. Every 4th case also requests a prune and closes the tree at once, six times: the process must survive and the latest version must reload.",
            "Trusted: M, R. Background pruning has no completion signal: not draining within the bound is INCONCLUSIVE. A store written by WriteSnapshot is read back with LoadSnapshot (as the property states), not with LoadVersion.",
            "DESIGN.md §3 C20"),
    "C04": ("exploration",
            "runtime monitoring: before/after observation vectors (hash, contents, reads, ICS-23 proof verification) around every DeleteVersionsTo, live and after reopen; raw-store comparison for rejected requests; export pins (opened before the request, or held since the version was the latest)",
            "Around every DeleteVersionsTo(n) in thousands of generated histories (no-op commits, empty versions, single-leaf roots, rollbacks + rewrites, deletions split over several physical batches by small flush thresholds), an observation vector of every later version is recorded before and compared after the call, on the live handle and on a freshly opened one; deleted versions must be unavailable on every API; rejected requests (latest version, version pinned by an open Exporter) must leave the raw store byte-identical.",
            "Trusted: model M, the ics23 verifier. Synchronous pruning only (async pruning is exercised by C06).",
            "DESIGN.md §3 C04"),
    "C12": ("exploration",
            "runtime monitoring: raw-storage audit after every step with an independent decoder (reachability from the retained versions, leak detection, fast-index entries and label), also on stores produced by the importer",
            "After every step of thousands of crash-free histories the raw store is decoded with the independent decoder D and audited: every retained version decodable with all child links resolving and contents equal to the model, every stored node reachable from a retained version, fast index entries + label describing exactly the latest version.",
            "Trusted: decoder D and model M (R is deliberately not used). Synchronous pruning, no faults.",
            "DESIGN.md §3 C12"),
    "C14": ("exploration",
            "runtime monitoring: version-range model compared with every bookkeeping API after every step, on the live handle and on a fresh handle; raw-store comparison for rejected requests; full read battery of the working state after every rejected request",
            "After every step: commit numbering, VersionExists / AvailableVersions / GetImmutable / GetLatestVersion / GetVersioned / LoadVersion for every version number in {0,1,first-2..latest+1} on the live handle and after a reopen; re-commit of an existing version number accepted iff the reference tree says the hash is identical; rejected requests leave the raw store byte-identical and the tree usable. Every 6th history runs with background pruning: once the pruning goroutine has taken versions out of the range (deletions still pending in the batch) every range API of that handle must agree with the model and LoadVersion of a removed version must fail and leave the handle where it was.",
            "Trusted: model M (range), reference tree R (hash equality of re-commits). With background pruning the executor waits (bounded) for the request to be processed; fresh-handle comparisons wait for the next commit.",
            "DESIGN.md §3 C14"),
}

NOT_YET = "check not built yet (construction in progress, see DESIGN.md Appendix C)"
NOT_APPLICABLE = {}

def hook_commits():
    p = os.path.join(HERE, "hooks_commits.txt")
    if os.path.exists(p):
        return [l.strip() for l in open(p) if l.strip()]
    return []

def main():
    props = [json.loads(l)["id"] for l in open(os.path.join(HERE, "properties.jsonl"))]
    checks = []
    na = []
    for pid in props:
        if pid in CHECKS:
            cat, tech, text, note, ref = CHECKS[pid]
            checks.append({
                "property_id": pid,
                "quick_cmd": "./run.sh %s quick" % pid,
                "thorough_cmd": "./run.sh %s thorough" % pid,
                "evidence_file": "/verif/evidence/%s.json" % pid,
                "replay_cmd_template": "./run.sh %s --replay {path}" % pid,
                "engine": "vcheck",
                "level_claimed": {"category": cat, "text": text, "design_ref": ref},
                "level_note": note,
                "technique": tech,
            })
        else:
            na.append({"property_id": pid, "reason": NOT_APPLICABLE.get(pid, NOT_YET)})
    m = {
        "version": 1,
        "setup_cmd": "./setup.sh",
        "hooks": {
            "guard": "verif",
            "enable": "go build -tags verif (run.sh builds cmd/vcheck against /repo's working tree in place through the replace directives of /verif/go.mod; hook files are *_verif.go with //go:build verif, stubs in *_noverif.go)",
            "baseline_off_cmd": "cd /repo && export GOFLAGS=-mod=mod GOPROXY=off GOSUMDB=off GOTOOLCHAIN=local && go test -vet=off -count=1 -timeout 25m ./... && cd v2 && go test -vet=off -count=1 -timeout 25m ./...",
            "source_commits": hook_commits(),
            "add_only": True,
        },
        "engines": [{
            "name": "vcheck",
            "path": "/verif/cmd/vcheck",
            "serves_properties": sorted(CHECKS.keys()),
            "kind_free_text": "Go harness: deterministic case lists per (VERIF_SEED, tier), one worker process per shard (a panic / fatal error / os.Exit in iavl is an observation, not the end of the run), oracles M (versioned map), R (independent IAVL+ reference), D (independent codec), storage-seam wrappers (write log, call counters, fault injection), race detector builds",
        }],
        "checks": checks,
        "not_applicable": na,
        "notes": "Technique family: runtime monitoring and sanitizers. Exit codes: 0 held on everything observed; 1 VIOLATION; 2 INCONCLUSIVE (build failure, watchdog, observation floor not met). Known genuine defects that were not repaired are in known_findings.json; repaired ones are listed there under 'fixed'.",
    }
    json.dump(m, open(os.path.join(HERE, "MANIFEST.json"), "w"), indent=1)
    print("wrote MANIFEST.json with %d checks, %d not claimed" % (len(checks), len(na)))

if __name__ == "__main__":
    main()
