#!/usr/bin/env python3
"""Assembles /verif/seeded/<id>/<a|b>/ from the sub-agents' deliveries (/tmp/seeded), the rebased
patches (/tmp/rebased), the confirmation results (tools/confirm_seeded.sh) and the mutant matrix
(tools/mutant.sh), and writes seeded/RESULTS.md.

  python3 tools/build_seeded.py collect            copy patch / demo / notes, write meta.json skeletons
  python3 tools/build_seeded.py matrix [ids...]    run every kept change against its own check (+related), update meta + RESULTS.md
"""
import json, os, shutil, subprocess, sys

V = '/verif'
SRC = '/tmp/seeded'
REB = '/tmp/rebased'
needs = json.load(open(os.path.join(V, 'tools/seeded_needs.json')))

# extra checks worth running for a change besides its own property's check
RELATED = {
    'C01': ['C07'], 'C02': ['C03'], 'C03': [], 'C04': ['C12'], 'C05': [], 'C06': [], 'C07': ['C01'], 'C08': [], 'C09': ['C01'],
    'C10': ['C17'], 'C11': [], 'C12': ['C04'], 'C13': [], 'C14': [], 'C15': [], 'C16': [], 'C17': [], 'C18': [], 'C19': [], 'C20': [],
}
OVERRIDE_CHECKS = {'C05/a': ['C05'], 'C07/b': ['C05', 'C07'], 'C10/b': ['C10', 'C17'], 'C17/a': ['C17'], 'C04/d': ['C04', 'C17'], 'C10/d': ['C10', 'C05'], 'C10/c': ['C10', 'C17'], 'C05/d': ['C05'], 'C11/d': ['C11', 'C19'], 'C04/f': ['C04', 'C05'], 'C06/f': ['C06', 'C04'], 'C12/e': ['C12', 'C10'], 'C10/f': ['C10', 'C17'], 'C02/f': ['C02', 'C10'], 'C14/e': ['C14', 'C01'], 'C04/g': ['C04', 'C16'], 'C09/g': ['C09', 'C16'], 'C07/h': ['C07', 'C06'], 'C14/g': ['C14', 'C17'], 'C19/h': ['C19', 'C20'], 'C06/h': ['C06', 'C18'], 'C03/i': ['C03', 'C16'], 'C07/j': ['C07', 'C06'], 'C09/j': ['C09', 'C05', 'C17'], 'C11/i': ['C11', 'C19'], 'C19/j': ['C19', 'C20'], 'C02/k': ['C02', 'C13'], 'C04/k': ['C04', 'C17'], 'C04/l': ['C04', 'C17'], 'C05/l': ['C05', 'C16'], 'C10/l': ['C10', 'C04', 'C06'], 'C19/l': ['C19', 'C20'], 'C08/l': ['C08', 'C06'], 'C09/k': ['C09', 'C01']}


def ids():
    out = []
    for i in range(1, 21):
        for x in 'abcdefghijkl':
            out.append('C%02d/%s' % (i, x))
    return out


def source_dir(pid, x):
    # round 1 deliveries are a/b under /tmp/seeded, round 2 deliveries (a/b under /tmp/seeded2) are kept as c/d
    if x in 'ab':
        return os.path.join(SRC, pid, x)
    if x in 'cd':
        return os.path.join('/tmp/seeded2', pid, {'c': 'a', 'd': 'b'}[x])
    # round 3 deliveries (a/b under /tmp/seeded3) are kept as e/f, round 4 (/tmp/seeded4) as g/h
    if x in 'ef':
        return os.path.join('/tmp/seeded3', pid, {'e': 'a', 'f': 'b'}[x])
    if x in 'gh':
        return os.path.join('/tmp/seeded4', pid, {'g': 'a', 'h': 'b'}[x])
    if x in 'ij':
        return os.path.join('/tmp/seeded5', pid, {'i': 'a', 'j': 'b'}[x])
    return os.path.join('/tmp/seeded6', pid, {'k': 'a', 'l': 'b'}[x])


def from_notes(path):
    # round 6 deliveries describe themselves: first sentence of NOTES.md = the change, 'NEEDS:' paragraph = what it needs
    change, need = '', ''
    try:
        lines = open(path).read().splitlines()
    except OSError:
        return ['', '']
    for l in lines:
        t = l.strip()
        if t and not t.startswith('#') and not change:
            change = t
        if t.upper().startswith('NEEDS:'):
            need = t[6:].strip()
            break
    if not change:
        for l in lines:
            if l.startswith('#'):
                change = l.lstrip('# ').strip()
                break
    return [change[:300], need[:400]]


def collect(sel=()):
    for key in ids():
        pid, x = key.split('/')
        if sel and key not in sel and pid not in sel:
            continue
        src = source_dir(pid, x)
        dst = os.path.join(V, 'seeded', pid, x)
        if not os.path.isdir(src) or not os.path.exists(os.path.join(src, 'patch.diff')) or not os.path.exists(os.path.join(src, 'NOTES.md')):
            continue
        os.makedirs(dst, exist_ok=True)
        patch = os.path.join(REB, pid, x, 'patch.diff')
        rebased = os.path.exists(patch)
        if not rebased:
            patch = os.path.join(src, 'patch.diff')
        shutil.copy(patch, os.path.join(dst, 'patch.diff'))
        if rebased:
            shutil.copy(os.path.join(src, 'patch.diff'), os.path.join(dst, 'patch.original.diff'))
        for f in os.listdir(src):
            if (f.startswith('demo_') and f.endswith('.txt')) or f == 'NOTES.md':
                shutil.copy(os.path.join(src, f), os.path.join(dst, f))
        meta_p = os.path.join(dst, 'meta.json')
        meta = json.load(open(meta_p)) if os.path.exists(meta_p) else {}
        if key not in needs:
            needs[key] = from_notes(os.path.join(src, 'NOTES.md'))
        meta.update({
            'id': key, 'breaks_property': pid,
            'change': needs.get(key, ['', ''])[0],
            'needs_to_manifest': needs.get(key, ['', ''])[1],
            'author': 'independent sub-agent given only the property text and a scratch worktree (round %d)' % (1 if x in 'ab' else 2 if x in 'cd' else 3 if x in 'ef' else 4 if x in 'gh' else 5 if x in 'ij' else 6),
            'rebased_onto_repaired_tree': rebased,
        })
        json.dump(meta, open(meta_p, 'w'), indent=1)
    print('collected')


def _one(args):
    key, dst, checks = args
    tool = 'tools/pmutant.sh' if os.environ.get('SEEDED_PARALLEL') else 'tools/mutant.sh'
    out = subprocess.run([os.path.join(V, tool), os.path.join(dst, 'patch.diff')] + checks,
                         capture_output=True, text=True).stdout
    return key, out


def run_matrix(sel):
    # SEEDED_PARALLEL=n: run n changes at a time with tools/pmutant.sh (scratch worktrees, /repo untouched)
    par = int(os.environ.get('SEEDED_PARALLEL', '0') or 0)
    outs = {}
    if par > 1:
        from concurrent.futures import ThreadPoolExecutor
        jobs = []
        for key in ids():
            pid, x = key.split('/')
            dst = os.path.join(V, 'seeded', pid, x)
            meta_p = os.path.join(dst, 'meta.json')
            if not os.path.exists(meta_p) or (sel and key not in sel and pid not in sel and ('round:' + x) not in sel):
                continue
            if json.load(open(meta_p)).get('status') == 'not-applicable':
                continue
            jobs.append((key, dst, OVERRIDE_CHECKS.get(key, [pid] + RELATED.get(pid, []))))
        with ThreadPoolExecutor(par) as ex:
            for key, out in ex.map(_one, jobs):
                outs[key] = out
                print(key, ' | '.join(l[:60] for l in out.splitlines()), flush=True)
    rows = []
    for key in ids():
        pid, x = key.split('/')
        dst = os.path.join(V, 'seeded', pid, x)
        meta_p = os.path.join(dst, 'meta.json')
        if not os.path.exists(meta_p):
            continue
        meta = json.load(open(meta_p))
        if sel and key not in sel and pid not in sel and ('round:' + x) not in sel:
            rows.append((key, meta))
            continue
        if meta.get('status') == 'not-applicable':
            rows.append((key, meta))
            continue
        checks = OVERRIDE_CHECKS.get(key, [pid] + RELATED.get(pid, []))
        out = outs[key] if key in outs else _one((key, dst, checks))[1]
        res = {}
        for line in out.splitlines():
            parts = line.split()
            if len(parts) >= 2 and parts[0] in ('CAUGHT', 'MISSED', 'INCONCL'):
                res[parts[1]] = {'verdict': parts[0], 'detail': ' '.join(parts[2:])[:200]}
            elif line.startswith('PATCH-DOES-NOT-APPLY'):
                res['apply'] = {'verdict': 'PATCH-DOES-NOT-APPLY', 'detail': ''}
        meta['checks_run'] = 'tools/mutant.sh seeded/%s/%s/patch.diff %s  (quick tier, VERIF_SEED=1)' % (pid, x, ' '.join(checks))
        meta['results'] = res
        meta['caught_by'] = sorted(k for k, v in res.items() if v['verdict'] == 'CAUGHT')
        json.dump(meta, open(meta_p, 'w'), indent=1)
        print(key, {k: v['verdict'] for k, v in res.items()}, flush=True)
        rows.append((key, meta))
    with open(os.path.join(V, 'seeded/RESULTS.md'), 'w') as f:
        f.write('# Seeded changes and the checks that catch them\n\n')
        f.write('Produced by `python3 tools/build_seeded.py matrix` (quick tier, VERIF_SEED=1; every change applied with `git apply` to /repo or - `tools/pmutant.sh` - to a scratch worktree of the HEAD of /repo, checks run, /repo restored / the worktree removed; meta.json of each change names the command that produced its row).\n\n')
        f.write('| change | what it is | needs | own check | other checks run | confirmation (demo with / without, suite with) |\n|---|---|---|---|---|---|\n')
        for key, m in rows:
            pid = key.split('/')[0]
            res = m.get('results', {})
            own = res.get(pid, {}).get('verdict', m.get('status', '-'))
            if m.get('status') == 'not-applicable':
                own = 'not applicable (' + m.get('status_reason', 'the code it changed is gone')[:90] + ')'
                res = {}
            others = ', '.join('%s:%s' % (k, v['verdict']) for k, v in sorted(res.items()) if k != pid)
            conf = m.get('confirmation', {})
            cs = '%s / %s, %s' % (conf.get('demo_with_change', '?'), conf.get('demo_without_change', '?'), conf.get('suite_with_change', '?'))
            f.write('| %s | %s | %s | %s | %s | %s |\n' % (key, m.get('change', ''), m.get('needs_to_manifest', ''), own, others, cs))
    print('wrote seeded/RESULTS.md')


if __name__ == '__main__':
    if len(sys.argv) > 1 and sys.argv[1] == 'collect':
        collect(set(sys.argv[2:]))
    elif len(sys.argv) > 1 and sys.argv[1] == 'matrix':
        run_matrix(set(sys.argv[2:]))
    else:
        print(__doc__)
