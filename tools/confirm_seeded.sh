#!/bin/bash
# tools/confirm_seeded.sh <id> <a|b> [suite]  — re-confirms one seeded change in a scratch worktree of /repo:
#   the patch applies, builds, the author's demonstration FAILS with it and PASSES without it, and (with "suite")
#   the existing test suite of the touched module passes with it. Prints one JSON line. Removes the worktree.
set -u
id="$1"; x="$2"; suite="${3:-}"
export GOFLAGS=-mod=mod GOPROXY=off GOSUMDB=off GOTOOLCHAIN=local
src="/verif/seeded/$id/$x"
patch="$src/patch.diff"
demo=$(ls "$src"/demo_test.go.txt "$src"/demo_main.go.txt 2>/dev/null | head -1)
wt="/tmp/confirm/$id$x"
rm -rf "$wt"; git -C /repo worktree prune
git -C /repo worktree add -q --detach "$wt" HEAD || { echo "{\"id\":\"$id/$x\",\"error\":\"worktree\"}"; exit 1; }
cleanup() { git -C /repo worktree remove --force "$wt" >/dev/null 2>&1; rm -rf "$wt"; }
trap cleanup EXIT
case "$id" in C18) pkgdir=db ;; C19|C20) pkgdir=v2 ;; *) pkgdir=. ;; esac
# a change to the v2 module is demonstrated and tested there
grep -q '^+++ b/v2/' "$patch" && pkgdir=v2
# a demonstration that declares another package than the root one lives next to the patched file
demopkg=$(grep -m1 '^package ' "$demo" | awk '{print $2}')
case "$demopkg" in fastnode|fastnode_test) pkgdir=fastnode ;; esac
# a demonstration that uses the verif yield points needs the tag
tags=""; grep -q '^//go:build verif' "$demo" && tags="-tags verif"
cp /repo/cmd/legacydump/legacydump "$wt/cmd/legacydump/legacydump" 2>/dev/null
cd "$wt"
applies=true
git apply "$patch" 2>/tmp/confirm-$id$x.err || applies=false
if [ "$applies" = false ]; then echo "{\"id\":\"$id/$x\",\"applies\":false,\"err\":\"$(head -2 /tmp/confirm-$id$x.err | tr '\n"' '  ')\"}"; exit 0; fi
builds=true
(cd $pkgdir && go build ./... >/dev/null 2>&1) || builds=false
cp "$demo" "$pkgdir/zz_seeded_demo_test.go"
runpkg="."
demo_with="pass"; (cd $pkgdir && timeout 1200 go test $tags -vet=off -count=1 -timeout 20m -run 'Seeded' $runpkg >/tmp/confirm-$id$x.with 2>&1) || demo_with="fail"
git apply -R "$patch"
demo_without="pass"; (cd $pkgdir && timeout 1200 go test $tags -vet=off -count=1 -timeout 20m -run 'Seeded' $runpkg >/tmp/confirm-$id$x.without 2>&1) || demo_without="fail"
rm -f "$pkgdir/zz_seeded_demo_test.go"
suite_res="skipped"
if [ "$suite" = suite ]; then
  git apply "$patch"
  if [ "$pkgdir" = v2 ]; then
    suite_res="pass"; (cd v2 && timeout 3000 go test -vet=off -count=1 -timeout 45m -run 'TestBuildSqlite|TestMmap|TestNodeKeyFormat|Test_ConcurrentIndexRead|Test_NewSqliteDb|TestDecodeBytes' ./... >/tmp/confirm-$id$x.suite 2>&1) || suite_res="fail"
  else
    suite_res="pass"; (timeout 3000 go test -vet=off -count=1 -timeout 45m ./... >/tmp/confirm-$id$x.suite 2>&1) || suite_res="fail"
  fi
fi
echo "{\"id\":\"$id/$x\",\"applies\":true,\"patch\":\"$patch\",\"builds\":$builds,\"demo_with_change\":\"$demo_with\",\"demo_without_change\":\"$demo_without\",\"suite_with_change\":\"$suite_res\"}"
