#!/bin/bash
# tools/pmutant.sh <patch.diff> <Cnn> [Cnn...]
# Like tools/mutant.sh, but never touches /repo: the change is applied to a scratch worktree of /repo's HEAD
# (under ${PM_ROOT:-/tmp/pm}), the checker is built against that worktree through a scratch modfile, and the
# quick checks run from a scratch VERIF_DIR (no evidence written, replay files thrown away). Several of these
# can therefore run at the same time. Prints one line per check: CAUGHT / MISSED / INCONCL.
# The matrix that is recorded (seeded/RESULTS.md) is still produced on /repo itself by tools/mutant.sh or by
# this script - both build exactly the same sources: /repo's HEAD plus the patch.
set -u
patch="$(readlink -f "$1")"; shift
export GOFLAGS=-mod=mod GOPROXY=off GOSUMDB=off GOTOOLCHAIN=local
root="${PM_ROOT:-/tmp/pm}"
V="${PM_SRC:-/verif}"
mkdir -p "$root"
S=$(mktemp -d "$root/m.XXXXXX")
cleanup() {
  git -C /repo worktree remove --force "$S/repo" >/dev/null 2>&1
  rm -rf "$S"
  git -C /repo worktree prune >/dev/null 2>&1
}
trap cleanup EXIT
git -C /repo worktree add --detach "$S/repo" HEAD >/dev/null 2>&1 || { echo "cannot create worktree"; exit 3; }
if ! git -C "$S/repo" apply "$patch" 2>"$S/apply.err"; then
  echo "PATCH-DOES-NOT-APPLY $patch"; head -5 "$S/apply.err"; exit 4
fi
mkdir -p "$S/v/bin"
sed -e "s#=> /repo/v2#=> $S/repo/v2#" -e "s#=> /repo\$#=> $S/repo#" $V/go.mod > "$S/v/go.mod"
cp $V/go.sum "$S/v/go.sum"
cp $V/known_findings.json "$S/v/"
cp -r $V/findings "$S/v/findings"
[ -x /verif/bin/legacygen ] && cp /verif/bin/legacygen "$S/v/bin/legacygen"
cd $V
for c in "$@"; do
  variant=plain; flags=()
  if [ "$c" = C06 ] || [ "${VERIF_RACE:-}" = 1 ]; then variant=race; flags=(-race); fi
  bin="$S/v/bin/vcheck-$variant"
  if [ ! -x "$bin" ]; then
    if ! out=$(go build -modfile="$S/v/go.mod" -tags verif "${flags[@]}" -o "$bin" ./cmd/vcheck 2>&1); then
      echo "INCONCL $c build failed: $(echo "$out" | grep -v -e sqlite3.c -e 'warning:' -e '^ *[0-9|]' -e 'note:' -e '~~~' | head -5 | tr '\n' ' ')"
      continue
    fi
  fi
  t0=$(date +%s)
  out=$(cd "$S/v" && VERIF_DIR="$S/v" VERIF_NO_EVIDENCE=1 VERIF_SEED=${VERIF_SEED:-1} "$bin" run "$c" ${MUTANT_TIER:-quick} 2>&1)
  rc=$?
  t1=$(date +%s)
  first=$(echo "$out" | grep -a -A1 '^VIOLATION' | sed -n 2p | cut -c1-160)
  total=$(echo "$out" | grep -a -o '[0-9]* violations' | head -1)
  case $rc in
    1) echo "CAUGHT  $c ($((t1-t0))s) $first [$total]" ;;
    0) echo "MISSED  $c ($((t1-t0))s)" ;;
    *) echo "INCONCL $c rc=$rc ($((t1-t0))s) $(echo "$out" | grep -a INCONCLUSIVE | head -2 | cut -c1-200)" ;;
  esac
  if [ -n "${PM_KEEP_OUT:-}" ]; then echo "$out" > "$PM_KEEP_OUT.$c"; fi
done
