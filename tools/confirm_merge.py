#!/usr/bin/env python3
"""tools/confirm_merge.py <Cnn/x> ...  — runs tools/confirm_seeded.sh <Cnn> <x> suite for each given change (up to
CONFIRM_PARALLEL at a time, default 3) and merges the JSON line it prints into seeded/<Cnn>/<x>/meta.json."""
import json, os, subprocess, sys
from concurrent.futures import ThreadPoolExecutor
V = '/verif'


def one(key):
    pid, x = key.split('/')
    out = subprocess.run([os.path.join(V, 'tools/confirm_seeded.sh'), pid, x, 'suite'], capture_output=True, text=True).stdout
    line = [l for l in out.splitlines() if l.startswith('{')]
    res = json.loads(line[-1]) if line else {'error': out[-300:]}
    mp = os.path.join(V, 'seeded', pid, x, 'meta.json')
    meta = json.load(open(mp))
    conf = {'how': 'tools/confirm_seeded.sh %s %s suite  (scratch worktree of /repo HEAD under /tmp/confirm, removed afterwards)' % (pid, x)}
    conf.update({k: v for k, v in res.items() if k not in ('id', 'patch')})
    meta['confirmation'] = conf
    json.dump(meta, open(mp, 'w'), indent=1)
    return key, res


if __name__ == '__main__':
    with ThreadPoolExecutor(int(os.environ.get('CONFIRM_PARALLEL', '3'))) as ex:
        for key, res in ex.map(one, sys.argv[1:]):
            print(key, {k: v for k, v in res.items() if k not in ('id', 'patch')}, flush=True)
