#!/bin/bash
# tools/revert_fixes.sh [commit...] — self-validation against the REAL defects of the pinned tree:
# for every "fixed:" entry of known_findings.json the repair is taken out again (reverse patch of
# the fix commit applied to /repo's working tree), the quick check of the property that found it is
# run without touching the evidence, and /repo is restored. Prints one line per fix:
#   REDETECTED <commit> <property> sig=...   |  NOT-REDETECTED <commit> <property>  |  REVERSE-PATCH-DOES-NOT-APPLY <commit>
# Needs a clean /repo and nothing else building from it.
set -u
cd /verif
if [ -n "$(git -C /repo status --porcelain)" ]; then echo "/repo is not clean"; exit 2; fi
python3 - "$@" <<'PY' > /tmp/revert_fixes.list
import json,sys,re
want=set(sys.argv[1:])
for f in json.load(open('/verif/known_findings.json'))['fixed']:
    m=re.match(r'fixed: property=(C\d+) ([0-9a-f]{7,}) ',f)
    if m and (not want or m.group(2) in want): print(m.group(2), m.group(1))
PY
# extra checks that also see a given defect (the entry names the property it was filed under)
extra() { case "$1" in 1dffa83) echo C17;; 2cf62d6) echo C16;; 2cf62d6) echo C16;; dbf852f) echo C05;; 70a4f07|2a13abd|9f008c2) echo C06;; *) echo "";; esac; }
while read commit prop; do
  # the v2 fixes live in the v2 module of the same repository
  git -C /repo diff "$commit" "$commit^" > /tmp/revert_fix.patch
  # a hand-made reverse patch, where later commits touched the same lines
  [ -f "/verif/tools/revert_patches/$commit.patch" ] && cp "/verif/tools/revert_patches/$commit.patch" /tmp/revert_fix.patch
  if ! git -C /repo apply --check /tmp/revert_fix.patch 2>/dev/null; then echo "REVERSE-PATCH-DOES-NOT-APPLY $commit $prop"; continue; fi
  git -C /repo apply /tmp/revert_fix.patch
  res="NOT-REDETECTED $commit $prop"
  for p in $prop $(extra $commit); do
    out=$(VERIF_NO_EVIDENCE=1 ./run.sh $p quick 2>&1)
    if echo "$out" | grep -q "^VIOLATION"; then res="REDETECTED $commit by $p $(echo "$out" | grep -m1 'sig=' | cut -c1-160)"; break; fi
  done
  echo "$res"
  git -C /repo checkout -- .
done < /tmp/revert_fixes.list
rm -f /tmp/revert_fix.patch /tmp/revert_fixes.list
