#!/bin/bash
# tools/mutant.sh <patch.diff> <Cnn> [Cnn...]  — applies a seeded change to /repo, runs the given checks
# (quick tier, no evidence written), restores /repo. Prints one line per check: CAUGHT / MISSED / INCONCLUSIVE.
set -u
patch="$1"; shift
cd /repo || exit 3
if ! git diff --quiet; then echo "/repo has uncommitted changes"; exit 3; fi
if ! git apply "$patch" 2>/tmp/mutant-apply.err; then
  echo "PATCH-DOES-NOT-APPLY $patch"; head -5 /tmp/mutant-apply.err; git checkout -- . ; exit 4
fi
trap 'cd /repo && git checkout -- . && git clean -fdq -- . >/dev/null 2>&1' EXIT
cd /verif
for c in "$@"; do
  t0=$(date +%s)
  out=$(VERIF_NO_EVIDENCE=1 VERIF_SEED=${VERIF_SEED:-1} ./run.sh "$c" ${MUTANT_TIER:-quick} 2>&1)
  rc=$?
  t1=$(date +%s)
  first=$(echo "$out" | grep -A1 '^VIOLATION' | sed -n 2p | cut -c1-160)
  total=$(echo "$out" | grep -a -o '[0-9]* violations' | head -1)
  case $rc in
    1) echo "CAUGHT  $c ($((t1-t0))s) $first [$total]" ;;
    0) echo "MISSED  $c ($((t1-t0))s)" ;;
    *) echo "INCONCL $c rc=$rc ($((t1-t0))s) $(echo "$out" | grep INCONCLUSIVE | head -2 | cut -c1-200)" ;;
  esac
done
rm -rf /verif/replay
